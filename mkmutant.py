#!/venv/bin/python
"""mkmutant.py NAME FILE OLD NEW [FILE OLD NEW ...]: write mutants/NAME.patch replacing OLD by NEW (first occurrence)."""
import os, subprocess, sys, shutil
HERE = os.path.dirname(os.path.abspath(__file__))
name = sys.argv[1]
trip = sys.argv[2:]
work = f"/dev/shm/cminx-mk-{os.getpid()}"
subprocess.check_call(["git", "-C", "/repo", "worktree", "add", "--detach", "-f", work, "HEAD"], stdout=subprocess.DEVNULL, stderr=subprocess.DEVNULL)
try:
    for i in range(0, len(trip), 3):
        f, old, new = trip[i:i+3]
        p = os.path.join(work, f)
        s = open(p).read()
        if old not in s:
            print("OLD not found in", f); sys.exit(1)
        open(p, "w").write(s.replace(old, new, 1))
    d = subprocess.run(["git", "-C", work, "diff"], capture_output=True, text=True).stdout
    open(os.path.join(HERE, "mutants", name + ".patch"), "w").write(d)
    print(d)
finally:
    subprocess.call(["git", "-C", "/repo", "worktree", "remove", "--force", work], stdout=subprocess.DEVNULL, stderr=subprocess.DEVNULL)
    shutil.rmtree(work, ignore_errors=True)
