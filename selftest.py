#!/venv/bin/python
"""Sensitivity suite (DESIGN.md section 6): apply each mutants/<ID>_*.patch to a scratch copy of
/repo, optionally confirm the pinned tests still pass, run the property's quick check against
the copy (CMINX_SRC) and expect exit 1.  Not a registered check.

usage: selftest.py [--tests] [--tier quick] [pattern ...]
"""
import glob, os, shutil, subprocess, sys, time
HERE = os.path.dirname(os.path.abspath(__file__))

def main():
    args = sys.argv[1:]
    run_tests = "--tests" in args
    args = [a for a in args if a != "--tests"]
    pats = args or ["*"]
    patches = sorted(p for pat in pats for p in glob.glob(os.path.join(HERE, "mutants", pat + ".patch")))
    results = []
    for patch in patches:
        name = os.path.basename(patch)[:-6]
        props = name.split("_")[0].split("+")
        work = f"/dev/shm/cminx-selftest-{os.getpid()}"
        shutil.rmtree(work, ignore_errors=True)
        subprocess.check_call(["git", "-C", "/repo", "worktree", "add", "--detach", "-f", work, "HEAD"],
                              stdout=subprocess.DEVNULL, stderr=subprocess.DEVNULL)
        try:
            # the scratch copy mirrors the working tree (uncommitted edits included)
            diff = subprocess.run(["git", "-C", "/repo", "diff", "HEAD"], capture_output=True).stdout
            if diff.strip():
                subprocess.run(["git", "-C", work, "apply"], input=diff, check=True)
            r = subprocess.run(["git", "-C", work, "apply", patch], capture_output=True, text=True)
            if r.returncode != 0:
                r = subprocess.run(["git", "-C", work, "apply", "-3", patch], capture_output=True, text=True)
            if r.returncode != 0:
                results.append((name, "PATCH-FAILED", r.stderr.strip()[:200]))
                continue
            tests = ""
            if run_tests:
                t = subprocess.run(["/venv/bin/python", "-m", "pytest", "-q", "-p", "no:cacheprovider", "-x"],
                                   cwd=work, capture_output=True, text=True,
                                   env=dict(os.environ, PYTHONPATH=os.path.join(work, "src")))
                tests = t.stdout.strip().splitlines()[-1] if t.stdout.strip() else "?"
            for pid in props:
                t0 = time.time()
                env = dict(os.environ, CMINX_SRC=os.path.join(work, "src"), CMINX_REPO=work, VERIF_OUT=work + "-out")
                c = subprocess.run(["/venv/bin/python", os.path.join(HERE, "run_check.py"), pid, "--tier", "quick"],
                                   cwd=HERE, capture_output=True, text=True, env=env)
                viol = [l for l in c.stdout.splitlines() if l.startswith("VIOLATION")]
                status = {0: "SURVIVED", 1: "killed", 2: "HARNESS-ERROR"}.get(c.returncode, f"exit{c.returncode}")
                results.append((f"{name} [{pid}]", status, f"{time.time()-t0:.0f}s tests[{tests}] " +
                                (viol[0][:160] if viol else c.stdout.strip().splitlines()[-1][:160] if c.stdout.strip() else c.stderr[-300:])))
        finally:
            subprocess.call(["git", "-C", "/repo", "worktree", "remove", "--force", work],
                            stdout=subprocess.DEVNULL, stderr=subprocess.DEVNULL)
            shutil.rmtree(work, ignore_errors=True)
            shutil.rmtree(work + "-out", ignore_errors=True)
    bad = 0
    for name, status, info in results:
        print(f"{status:14s} {name}: {info}")
        if status != "killed":
            bad += 1
    # evidence files were rewritten by the mutant runs; the caller should re-run the real checks
    return 1 if bad else 0

if __name__ == "__main__":
    sys.exit(main())
