#!/venv/bin/python
"""Confirm and evaluate seeded changes written by independent sub-agents.

usage: seedtest.py confirm /tmp/seed/C03/SEED/1 C03 [name]   -> verify (tests pass, demo fails with / passes without),
                                                               then store under seeded/<name>/ with meta.json
       seedtest.py run [pattern ...] [--tier quick|thorough] [--props C03,C02]
                                                            -> apply seeded/<name>/patch.diff to a scratch worktree and run
                                                               the property's check against it; expects exit 1
Scratch worktrees live under /dev/shm and are removed afterwards.  Nothing is ever applied to /repo itself.
"""
import glob
import json
import os
import shutil
import subprocess
import sys
import time

HERE = os.path.dirname(os.path.abspath(__file__))
PY = "/venv/bin/python"


def scratch():
    work = f"/dev/shm/cminx-seed-{os.getpid()}"
    shutil.rmtree(work, ignore_errors=True)
    subprocess.check_call(["git", "-C", "/repo", "worktree", "add", "--detach", "-f", work, "HEAD"],
                          stdout=subprocess.DEVNULL, stderr=subprocess.DEVNULL)
    return work


def drop(work):
    subprocess.call(["git", "-C", "/repo", "worktree", "remove", "--force", work], stdout=subprocess.DEVNULL,
                    stderr=subprocess.DEVNULL)
    shutil.rmtree(work, ignore_errors=True)
    shutil.rmtree(work + "-out", ignore_errors=True)


def run_tests(work):
    t = subprocess.run([PY, "-m", "pytest", "-q", "-p", "no:cacheprovider"], cwd=work, capture_output=True, text=True,
                       env=dict(os.environ, PYTHONPATH=os.path.join(work, "src")))
    last = t.stdout.strip().splitlines()[-1] if t.stdout.strip() else "?"
    return t.returncode == 0 and "69 passed" in last, last


def run_demo(work, demo):
    d = subprocess.run([PY, demo], cwd=os.path.dirname(demo), capture_output=True, text=True,
                       env=dict(os.environ, PYTHONPATH=os.path.join(work, "src"),
                                CMINX_CMAKE=os.path.join(work, "cmake", "cminx.cmake")))
    return d.returncode, (d.stdout + d.stderr)[-600:]


def confirm(src_dir, prop, name=None):
    name = name or f"{prop}_{os.path.basename(os.path.dirname(os.path.dirname(src_dir.rstrip('/'))))}_{os.path.basename(src_dir.rstrip('/'))}"
    patch = os.path.join(src_dir, "patch.diff")
    demo = os.path.join(src_dir, "demo.py")
    work = scratch()
    meta = {"property": prop, "source": src_dir, "confirmed": False}
    try:
        demo_copy = os.path.join(work, "_demo", "demo.py")
        os.makedirs(os.path.dirname(demo_copy))
        shutil.copy(demo, demo_copy)
        # the agents hard-code their worktree path in some demos: point it at the scratch tree
        txt = open(demo_copy).read()
        for i in range(1, 21):
            txt = txt.replace(f"/tmp/seed/C{i:02d}r11", work).replace(f"/tmp/seed/C{i:02d}r10", work).replace(f"/tmp/seed/C{i:02d}r9", work).replace(f"/tmp/seed/C{i:02d}r8", work).replace(f"/tmp/seed/C{i:02d}r7", work).replace(f"/tmp/seed/C{i:02d}r6", work).replace(f"/tmp/seed/C{i:02d}r5", work).replace(f"/tmp/seed/C{i:02d}r4", work).replace(f"/tmp/seed/C{i:02d}r3", work).replace(f"/tmp/seed/C{i:02d}r2", work).replace(f"/tmp/seed/C{i:02d}", work)
        open(demo_copy, "w").write(txt)
        code0, out0 = run_demo(work, demo_copy)
        a = subprocess.run(["git", "-C", work, "apply", patch], capture_output=True, text=True)
        if a.returncode != 0:
            meta["error"] = "patch does not apply: " + a.stderr[:300]
            print(json.dumps(meta, indent=1))
            return False
        ok, last = run_tests(work)
        code1, out1 = run_demo(work, demo_copy)
        meta.update({"tests_with_patch": last, "demo_exit_without_patch": code0, "demo_exit_with_patch": code1,
                     "demo_output_with_patch": out1[-400:]})
        meta["confirmed"] = bool(ok and code0 == 0 and code1 != 0)
        notes = os.path.join(src_dir, "notes.md")
        meta["needs_to_manifest"] = open(notes).read()[:1500] if os.path.exists(notes) else ""
        meta["ran"] = ["git apply patch.diff in a scratch worktree of /repo HEAD",
                       "PYTHONPATH=<wt>/src /venv/bin/python -m pytest -q -p no:cacheprovider",
                       "PYTHONPATH=<wt>/src /venv/bin/python demo.py (with and without the patch)"]
    finally:
        drop(work)
    print(json.dumps({k: v for k, v in meta.items() if k != "needs_to_manifest"}, indent=1))
    if meta["confirmed"]:
        dst = os.path.join(HERE, "seeded", name)
        os.makedirs(dst, exist_ok=True)
        shutil.copy(patch, os.path.join(dst, "patch.diff"))
        shutil.copy(demo, os.path.join(dst, "demo.py"))
        if os.path.exists(os.path.join(src_dir, "notes.md")):
            shutil.copy(os.path.join(src_dir, "notes.md"), os.path.join(dst, "notes.md"))
        json.dump(meta, open(os.path.join(dst, "meta.json"), "w"), indent=1)
        print("stored", dst)
    return meta["confirmed"]


def run(patterns, tier, props_override):
    names = sorted(set(os.path.basename(os.path.dirname(p)) for pat in (patterns or ["*"])
                       for p in glob.glob(os.path.join(HERE, "seeded", pat, "patch.diff"))))
    results = []
    for name in names:
        d = os.path.join(HERE, "seeded", name)
        meta = json.load(open(os.path.join(d, "meta.json")))
        props = props_override or [meta["property"]]
        work = scratch()
        try:
            a = subprocess.run(["git", "-C", work, "apply", os.path.join(d, "patch.diff")], capture_output=True, text=True)
            if a.returncode != 0:
                # the repository moved on since the change was written (later fix: commits): three-way merge on the recorded blobs
                a = subprocess.run(["git", "-C", work, "apply", "-3", os.path.join(d, "patch.diff")], capture_output=True, text=True)
            if a.returncode != 0:
                results.append((name, "PATCH-FAILED", a.stderr[:200]))
                continue
            for pid in props:
                t0 = time.time()
                env = dict(os.environ, CMINX_SRC=os.path.join(work, "src"), CMINX_REPO=work, VERIF_OUT=work + "-out")
                c = subprocess.run([PY, os.path.join(HERE, "run_check.py"), pid, "--tier", tier], cwd=HERE,
                                   capture_output=True, text=True, env=env)
                viol = [l for l in c.stdout.splitlines() if l.startswith("VIOLATION")]
                status = {0: "SURVIVED", 1: "killed", 2: "HARNESS-ERROR"}.get(c.returncode, f"exit{c.returncode}")
                results.append((f"{name} [{pid} {tier}]", status, f"{time.time() - t0:.0f}s " +
                                (viol[0][:200] if viol else (c.stdout.strip().splitlines() or ["?"])[-1][:200])))
                rp = os.path.join(d, "last_result.json")
                prev = json.load(open(rp)) if os.path.exists(rp) else {}
                prev[f"{pid}:{tier}"] = {"status": status, "buckets": [l.split("key=")[1].split(" ")[0] for l in viol if "key=" in l][:6],
                                         "repo_head": subprocess.run(["git", "-C", "/repo", "log", "--format=%h", "-1"],
                                                                     capture_output=True, text=True).stdout.strip()}
                json.dump(prev, open(rp, "w"), indent=1)
        finally:
            drop(work)
    bad = 0
    for name, status, info in results:
        print(f"{status:14s} {name}: {info}")
        bad += status != "killed"
    return 1 if bad else 0


def index():
    """seeded/INDEX.md: one line per stored change with what it needs and which check caught it."""
    rows = []
    for d in sorted(glob.glob(os.path.join(HERE, "seeded", "*", "meta.json"))):
        name = os.path.basename(os.path.dirname(d))
        meta = json.load(open(d))
        rp = os.path.join(os.path.dirname(d), "last_result.json")
        res = json.load(open(rp)) if os.path.exists(rp) else {}
        caught = "; ".join(f"{k} {v['status']}" + (f" ({', '.join(v['buckets'][:2])})" if v["buckets"] else "") for k, v in sorted(res.items()))
        first = ""
        for line in (meta.get("needs_to_manifest") or "").splitlines():
            line = line.strip(" #*-")
            if len(line) > 25:
                first = line[:170]
                break
        rows.append(f"| {name} | {meta['property']} | {first.replace('|', '/')} | {caught or 'not run'} | {meta.get('domain_note', '')} |")
    with open(os.path.join(HERE, "seeded", "INDEX.md"), "w") as f:
        f.write("# Seeded changes (written by independent sub-agents, confirmed in scratch worktrees)\n\n"
                "Each directory holds patch.diff, demo.py, notes.md, meta.json (what it breaks, what it needs, what was run) and "
                "last_result.json (outcome of the registered check against the patched tree).\n\n"
                "| change | property | summary (from the author's notes) | check result | note |\n|---|---|---|---|---|\n" + "\n".join(rows) + "\n")
    print(f"wrote seeded/INDEX.md with {len(rows)} rows")


if __name__ == "__main__":
    args = sys.argv[1:]
    if args and args[0] == "index":
        index()
        sys.exit(0)
    if args and args[0] == "confirm":
        sys.exit(0 if confirm(*args[1:]) else 1)
    if args and args[0] == "run":
        tier = "quick"
        props = None
        rest = []
        it = iter(args[1:])
        for a in it:
            if a == "--tier":
                tier = next(it)
            elif a == "--props":
                props = next(it).split(",")
            else:
                rest.append(a)
        sys.exit(run(rest, tier, props))
    print(__doc__)
    sys.exit(2)
