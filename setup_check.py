#!/venv/bin/python
"""MANIFEST.setup_cmd: verify (and if needed install, offline) what the checks import."""
import importlib, subprocess, sys
need = ["hypothesis", "docutils", "yaml", "pathspec", "confuse", "antlr4"]
pipname = {"yaml": "PyYAML", "antlr4": "antlr4-python3-runtime"}
missing = []
for m in need:
    try:
        importlib.import_module(m)
    except Exception:
        missing.append(m)
for m in missing:
    subprocess.call([sys.executable, "-m", "pip", "install", "--no-index", "--find-links",
                     "/opt/veriftools/wheels", pipname.get(m, m)])
bad = []
for m in need:
    try:
        importlib.import_module(m)
    except Exception as e:
        bad.append((m, repr(e)))
if bad:
    print("setup: missing modules:", bad)
    sys.exit(1)
print("setup ok")
