#!/usr/bin/env python3
"""Validate MANIFEST.json and evidence/*.json against the schemas (run with python3-vt)."""
import json, glob, sys, jsonschema
ok = True
def v(path, schema):
    global ok
    try:
        jsonschema.validate(json.load(open(path)), json.load(open(schema)))
    except Exception as e:
        ok = False
        print("INVALID", path, str(e)[:300])
v('MANIFEST.json', '/root/.vp/MANIFEST.schema.json')
for f in sorted(glob.glob('evidence/*.json')):
    v(f, '/root/.vp/EVIDENCE.schema.json')
print("all valid" if ok else "FAILED")
sys.exit(0 if ok else 1)
