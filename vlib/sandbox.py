"""Sandbox for CLI-level checks (DESIGN.md 1.4): tree materialisation on /dev/shm, scandir-order
shim, in-process main() runner, snapshots."""
import contextlib
import hashlib
import io
import itertools
import logging
import os
import shutil
import stat

from . import use_repo_source
from .cminx_run import scratch_dir

_counter = itertools.count()

# ancestors of every sandbox use characters that no generated exclude pattern can match
ROOT_NAME = "sbx_0f3a9c"


class Sandbox:
    """root/in (input tree) root/cwd root/out root/cfg root/else ; removed on close()."""

    def __init__(self, tag="s"):
        self.root = os.path.join(scratch_dir(), f"{ROOT_NAME}_{tag}{next(_counter)}")
        shutil.rmtree(self.root, ignore_errors=True)
        for d in ("cwd", "cfg", "else"):
            os.makedirs(os.path.join(self.root, d))

    def path(self, *parts):
        return os.path.join(self.root, *parts)

    def close(self):
        shutil.rmtree(self.root, ignore_errors=True)

    def __enter__(self):
        return self

    def __exit__(self, *a):
        self.close()


def materialize(tree, base):
    """tree: {"files": {name: text}, "dirs": {name: subtree}} -> on disk under base."""
    os.makedirs(base, exist_ok=True)
    for name, text in tree.get("files", {}).items():
        with open(os.path.join(base, name), "wb") as f:
            f.write(text.encode("utf-8"))
    for name, sub in tree.get("dirs", {}).items():
        materialize(sub, os.path.join(base, name))


def tree_files(tree, prefix=""):
    """-> [(relative path, text)] and directories via tree_dirs()."""
    out = []
    for name, text in tree.get("files", {}).items():
        out.append((prefix + name, text))
    for name, sub in tree.get("dirs", {}).items():
        out += tree_files(sub, prefix + name + "/")
    return out


def tree_dirs(tree, prefix=""):
    out = []
    for name, sub in tree.get("dirs", {}).items():
        out.append(prefix + name)
        out += tree_dirs(sub, prefix + name + "/")
    return out


def subtree(tree, rel):
    node = tree
    if rel in ("", "."):
        return node
    for part in rel.split("/"):
        node = node["dirs"][part]
    return node


def snapshot(root, times=False):
    """{relative path: (type, size, sha256)} of everything under root; times=True adds the modification time of
    regular files and their permission bits (a file that is rewritten, touched or chmod-ed differs even when its bytes are the same)."""
    snap = {}
    for dirpath, dirnames, filenames in os.walk(root):
        rel = os.path.relpath(dirpath, root)
        rel = "" if rel == "." else rel + "/"
        for d in dirnames:
            snap[rel + d] = ("dir", 0, "")
        for f in filenames:
            p = os.path.join(dirpath, f)
            try:
                st = os.lstat(p)
                if stat.S_ISREG(st.st_mode):
                    with open(p, "rb") as fh:
                        data = fh.read()
                    snap[rel + f] = ("file", len(data), hashlib.sha256(data).hexdigest()) + ((st.st_mtime_ns, stat.S_IMODE(st.st_mode)) if times else ())
                else:
                    snap[rel + f] = ("other", 0, "")
            except OSError:
                snap[rel + f] = ("unreadable", 0, "")
    return snap


def read_tree(root):
    """{relative path: bytes} of all regular files under root."""
    out = {}
    for dirpath, _, filenames in os.walk(root):
        for f in filenames:
            p = os.path.join(dirpath, f)
            with open(p, "rb") as fh:
                out[os.path.relpath(p, root)] = fh.read()
    return out


# ------------------------------------------------------------------ directory-listing order owned by the harness

class _ScanIter:
    """Context manager and iterator, like the object os.scandir returns."""

    def __init__(self, entries):
        self._it = iter(entries)

    def __iter__(self):
        return self

    def __next__(self):
        return next(self._it)

    def __enter__(self):
        return self

    def __exit__(self, *a):
        return False

    def close(self):
        pass


def permute(names, order):
    """Deterministic permutation of sorted `names` driven by the integer list `order` (cyclic)."""
    names = sorted(names)
    if not order:
        return names
    out = []
    i = 0
    pool = list(names)
    while pool:
        k = order[i % len(order)] % len(pool)
        out.append(pool.pop(k))
        i += 1
    return out


@contextlib.contextmanager
def scandir_order(order):
    """Within the block os.scandir lists every directory in the order permute(sorted names, order).
    order None leaves the operating system's order."""
    if order is None:
        yield
        return
    real = os.scandir

    def fake(path="."):
        with real(path) as it:
            entries = list(it)
        by_name = {e.name: e for e in entries}
        # per-directory variation: rotate the order list by the directory's depth
        depth = os.fspath(path).rstrip("/").count("/")
        o = order[depth % len(order):] + order[:depth % len(order)] if order else order
        return _ScanIter([by_name[n] for n in permute(list(by_name), o)])

    os.scandir = fake
    try:
        yield
    finally:
        os.scandir = real


class MainRun:
    __slots__ = ("code", "exc", "stdout", "stderr", "argv")


def run_main(argv, cwd=None, cfgdir=None, order=None, tilde=False):
    """cminx.main(argv) in-process with cwd, user config dir and directory-listing order controlled."""
    use_repo_source()
    import cminx
    r = MainRun()
    r.code, r.exc, r.argv = 0, None, list(argv)
    out, err = io.StringIO(), io.StringIO()
    old_cwd = os.getcwd()
    old_env = {k: os.environ.get(k) for k in ("CMINXDIR", "HOME", "XDG_CONFIG_HOME")}
    if cfgdir is None:
        cfgdir = os.path.join(scratch_dir(), "empty-cfg")
        os.makedirs(cfgdir, exist_ok=True)
    os.environ["CMINXDIR"] = cfgdir
    os.environ["HOME"] = cfgdir
    os.environ["XDG_CONFIG_HOME"] = cfgdir
    if tilde:
        # the same directory, spelled relative to the home directory
        os.environ["HOME"] = os.path.dirname(cfgdir)
        os.environ["CMINXDIR"] = "~/" + os.path.basename(cfgdir)
    root = logging.getLogger()
    saved_root = (list(root.handlers), root.level)
    try:
        if cwd is not None:
            os.chdir(cwd)
        with contextlib.redirect_stdout(out), contextlib.redirect_stderr(err), scandir_order(order):
            try:
                cminx.main(list(argv))
            except SystemExit as e:
                c = e.code
                r.code = c if isinstance(c, int) else (0 if c is None else 1)
            except BaseException as e:  # noqa
                if isinstance(e, KeyboardInterrupt):
                    raise
                r.exc = e
                r.code = 1
    finally:
        os.chdir(old_cwd)
        for k, v in old_env.items():
            if v is None:
                os.environ.pop(k, None)
            else:
                os.environ[k] = v
        for lg in [root, logging.getLogger("cminx")]:
            for h in list(lg.handlers):
                lg.removeHandler(h)
        for h in saved_root[0]:
            root.addHandler(h)
        root.setLevel(saved_root[1])
        lg = logging.getLogger("cminx")
        lg.propagate = True
        r.stdout, r.stderr = out.getvalue(), err.getvalue()
    return r
