"""In-process runners for the code under test."""
import atexit
import contextlib
import io
import logging
import os
import shutil
import sys

from . import use_repo_source

_scratch = None


def scratch_dir():
    global _scratch
    if _scratch is None or not os.path.isdir(_scratch):
        base = "/dev/shm" if os.path.isdir("/dev/shm") else "/tmp"
        _scratch = os.path.join(base, f"cminx-verif-{os.getpid()}")
        shutil.rmtree(_scratch, ignore_errors=True)
        os.makedirs(_scratch)
        atexit.register(shutil.rmtree, _scratch, True)
    return _scratch


def real_settings(ms=None, headers=None, **rst):
    """cminx Settings mirroring the documented defaults of config_default.yaml, adjusted by the model settings."""
    use_repo_source()
    from cminx.config import Settings
    s = Settings()
    s.input.kwargs_doc_trigger_string = ":keyword"
    if ms is not None:
        for k, v in ms.flags.items():
            setattr(s.input, f"include_undocumented_{k}", v)
        s.input.kwargs_doc_trigger_string = ms.trigger
        s.input.function_parameter_name_strip_regex = ms.strip["function"]
        s.input.macro_parameter_name_strip_regex = ms.strip["macro"]
        s.input.member_parameter_name_strip_regex = ms.strip["member"]
    if headers is not None:
        s.rst.headers = list(headers)
    for k, v in rst.items():
        setattr(s.rst, k, v)
    return s


class Run:
    __slots__ = ("text", "exc", "stderr", "log", "documented")

    def __init__(self):
        self.text = None
        self.exc = None
        self.stderr = ""
        self.log = []
        self.documented = None


class _ListHandler(logging.Handler):
    def __init__(self, sink):
        super().__init__(level=logging.WARNING)
        self.sink = sink

    def emit(self, record):
        try:
            self.sink.append((record.levelname, record.getMessage()))
        except Exception:
            pass


def document_text(source, settings=None, title="TITLE", module="MODNAME", name="case.cmake", newline=None,
                  raw_bytes=None):
    """Write `source` (str -> UTF-8) to a scratch file and run Documenter on it."""
    use_repo_source()
    from cminx.documenter import Documenter
    path = os.path.join(scratch_dir(), name)
    data = raw_bytes if raw_bytes is not None else source.encode("utf-8")
    with open(path, "wb") as f:
        f.write(data)
    # every scratch file carries the same modification time (as after `cp -p`): nothing may be keyed on it
    os.utime(path, (1_000_000_000, 1_000_000_000))
    r = Run()
    err = io.StringIO()
    logger = logging.getLogger("cminx")
    h = _ListHandler(r.log)
    logger.addHandler(h)
    old_prop, old_level = logger.propagate, logger.level
    logger.propagate = False
    try:
        with contextlib.redirect_stderr(err):
            d = Documenter(path, title, module, settings if settings is not None else real_settings())
            w = d.process()
            r.text = w.to_text()
            r.documented = d.aggregator.documented
    except RecursionError as e:
        r.exc = e
    except Exception as e:
        r.exc = e
        if raw_bytes is None and type(e).__name__ in ("CMakeSyntaxError", "NoViableAltException", "InputMismatchException"):
            # soundness guard: a rejected source that our own reference lexer rejects too is a generator bug, not a finding
            from . import ref_lexer
            if ref_lexer.lex(source).error is not None:
                e._verif_invalid_source = True
    finally:
        logger.removeHandler(h)
        logger.propagate = old_prop
        r.stderr = err.getvalue()
    return r


class MainRun:
    __slots__ = ("code", "exc", "stdout", "stderr")


def run_main(argv, cwd=None, cfgdir=None):
    """cminx.main(argv) in-process: stdout/stderr captured, SystemExit turned into a status.
    The per-user configuration directory is pinned (CMINXDIR) so the host cannot leak in."""
    use_repo_source()
    import cminx
    r = MainRun()
    r.code, r.exc = 0, None
    out, err = io.StringIO(), io.StringIO()
    old_cwd = os.getcwd()
    old_env = {k: os.environ.get(k) for k in ("CMINXDIR", "HOME", "XDG_CONFIG_HOME")}
    if cfgdir is None:
        cfgdir = os.path.join(scratch_dir(), "empty-cfg")
        os.makedirs(cfgdir, exist_ok=True)
    os.environ["CMINXDIR"] = cfgdir
    os.environ["HOME"] = cfgdir
    os.environ["XDG_CONFIG_HOME"] = cfgdir
    root = logging.getLogger()
    saved_root = (list(root.handlers), root.level)
    try:
        if cwd is not None:
            os.chdir(cwd)
        with contextlib.redirect_stdout(out), contextlib.redirect_stderr(err):
            try:
                cminx.main(list(argv))
            except SystemExit as e:
                c = e.code
                r.code = c if isinstance(c, int) else (0 if c is None else 1)
            except BaseException as e:  # noqa
                if isinstance(e, KeyboardInterrupt):
                    raise
                r.exc = e
                r.code = 1
    finally:
        os.chdir(old_cwd)
        for k, v in old_env.items():
            if v is None:
                os.environ.pop(k, None)
            else:
                os.environ[k] = v
        # cminx.main installs logging handlers bound to the captured streams: drop them again
        for lg in [root, logging.getLogger("cminx")]:
            for h in list(lg.handlers):
                lg.removeHandler(h)
        for h in saved_root[0]:
            root.addHandler(h)
        root.setLevel(saved_root[1])
        r.stdout, r.stderr = out.getvalue(), err.getvalue()
    return r


def parse_commands(source):
    """CMinx's own view of a source text through its public parser package: [(name, [flattened raw args])].
    Parenthesised groups are flattened with "(" and ")" tokens.  Raises what the parser raises."""
    use_repo_source()
    from antlr4 import InputStream, CommonTokenStream
    from cminx.parser import ParserErrorListener
    from cminx.parser.CMakeLexer import CMakeLexer
    from cminx.parser.CMakeParser import CMakeParser
    err = io.StringIO()
    with contextlib.redirect_stderr(err):
        lexer = CMakeLexer(InputStream(source))
        parser = CMakeParser(CommonTokenStream(lexer))
        parser.addErrorListener(ParserErrorListener())
        tree = parser.cmake_file()
    out = []

    def flat(ctx, acc):
        for ch in ctx.getChildren():
            if isinstance(ch, CMakeParser.Single_argumentContext):
                acc.append(ch.getText())
            elif isinstance(ch, CMakeParser.Compound_argumentContext):
                acc.append("(")
                flat(ch, acc)
                acc.append(")")

    def visit(ctx):
        for ch in ctx.getChildren():
            if isinstance(ch, CMakeParser.Command_invocationContext):
                acc = []
                flat(ch, acc)
                out.append((ch.Identifier().getText(), acc))
            elif isinstance(ch, CMakeParser.Documented_commandContext):
                visit(ch)
    visit(tree)
    return out, err.getvalue()


DOCUMENTED_KINDS = {"function", "macro", "cpp_class", "cpp_member", "cpp_constructor", "cpp_attr", "ct_add_test",
                    "ct_add_section", "add_test", "option", "set", "cmake_parse_arguments"}


def dispatch_collisions():
    """Names a user command could have that collide with the aggregator's by-name dispatch (`process_<name>`), read from
    the tree under test: every such name other than the documented command kinds is an ordinary command for CMake."""
    use_repo_source()
    import warnings
    with warnings.catch_warnings():
        warnings.simplefilter("ignore")
        from cminx.aggregator import DocumentationAggregator
    names = sorted(a[len("process_"):] for a in dir(DocumentationAggregator) if a.startswith("process_"))
    return [n for n in names if n and n not in DOCUMENTED_KINDS]
