"""Hypothesis strategies for directory trees of CMake files (C12-C19) and a reference model of
directory mode written from the statements of C13-C15 (never imports cminx)."""
import fnmatch
import re

from hypothesis import strategies as st

from . import gen_cmake as G

CMAKE_NAMES = ["a.cmake", "..cmake", "b.cmake", "zeta.cmake", "d.e.cmake", "x-y.cmake", "Mod_1.cmake", "pre_one.cmake", "pre_two.cmake",
               "ax.cmake", "bx.cmake", "Zeta.cmake", "w.cmake.cmake", "c.cmake-3.cmake", "in.util.cmake", "pfx.core.cmake", "tool.cmake", ".impl.cmake", "_private.cmake", "x.cmake", "d.cmake",
               "cafe\u0301.cmake", "g++ (2).cmake", "a+b.cmake", "x$y^z.cmake", "v1,v2.cmake", "v2.cmake", "L" * 248 + ".cmake"]   # the last: at the name length limit
MIXED_NAMES = ["up.CMAKE", "Mix.CMake", "w.Cmake"]
OTHER_NAMES = ["README", "stray.cmake\n", "x.txt", "CMakeLists.txt", "x.cmake.in", "cmake", "notcmake", "z.cmake.bak", "acmake", "data.json",
               "cmake.txt"]
DIR_NAMES = ["sub", "a.b", "x-y", "cmake", "Dir2", "docs", "pre_dir", "ax", "deep", "d1", "d2", "tool.cmake", "pfx", "Sub", ".detail", "in", "..legacy",
             "mode\u0301les", "g++ (2)", "c++", "a{1}b", "a,b", "b"]

CONTENTS = [
    "#[[[\n# Function doc @.\n#]]\nfunction(fn_@ arg)\nendfunction()\n",
    "macro(mac_@ a b)\nendmacro()\n",
    "#[[[\n# A variable @.\n#]]\nset(VAR_@ value)\n",
    "#[[[ @module\n# Module text @.\n#]]\ninclude_guard()\noption(OPT_@ \"help\" ON)\n",
    "# plain comment @\nmessage(\"nothing documented @\")\n",
    "",
    "#[[[\n# Class @.\n#]]\ncpp_class(Cls_@)\n  cpp_attr(Cls_@ attr_@ 1)\ncpp_end_class()\n",
    "#[[[\n# Test @.\n#]]\nct_add_test(NAME t_@)\nfunction(${t_@})\nendfunction()\n",
    "#[[[\n# Pending test @ (declaration is the last command of the file).\n#]]\nct_add_test(NAME pend_@)\n",
    "function(first_@ a b)\nendfunction()\n#[[[\n# After @.\n#]]\nset(AFTER_@ 1)\n",
    "#[[[\n# Keyword function @.\n#]]\nfunction(kw_@ _a _b)\n  cmake_parse_arguments(x \"\" \"\" \"\")\nendfunction()\n",
    "#[[[\n# Same parameters @, no keywords.\n#]]\nfunction(plain_@ _a _b)\nendfunction()\nmacro(m_@ _a _b)\nendmacro()\n",
    "#[[[\n# Odd separators @: form feed \x0c line separator \u2028 next line \x85 end.\n#]]\nset(ODD_@ \"v\x0cw\")\n",
    "#[[[\n# Derived @.\n#]]\ncpp_class(Der_@ BaseA_@ BaseB_@ BaseC_@ BaseD_@)\n  cpp_member(m_@ Der_@ int str)\n  function(${m_@} self a b)\n  endfunction()\ncpp_end_class()\n",
]


def dir_tree(depth, max_files=4, max_dirs=3, mixed_case=True, others=True, force_cmake_top=False, min_dirs=0):
    names = list(CMAKE_NAMES)
    file_pool = G.weighted((4, st.sampled_from(names)),
                           (1, st.sampled_from(MIXED_NAMES if mixed_case else names)),
                           (2, st.sampled_from(OTHER_NAMES if others else names)))
    files = st.dictionaries(file_pool, st.integers(0, len(CONTENTS) - 1), max_size=max_files)
    if depth <= 0:
        dirs = st.just({})
    else:
        dirs = st.dictionaries(st.sampled_from(DIR_NAMES), st.deferred(lambda: dir_tree(depth - 1, max_files, max_dirs, mixed_case, others)),
                               min_size=min(min_dirs, max_dirs), max_size=max_dirs)
    return st.fixed_dictionaries({"files": files, "dirs": dirs}).map(lambda t: _norm(t, force_cmake_top))


def _norm(t, force_top):
    """Remove inherent collisions: two files of one directory mapping to the same page; a file and a directory
    with the same name."""
    files = {}
    stems = set()
    for name in sorted(t["files"]):
        if name in t["dirs"]:
            continue
        if is_cmake(name):
            stem = stem_of(name)
            if stem in stems or stem == "index":
                continue
            stems.add(stem)
        files[name] = t["files"][name]
    if force_top and not any(n.endswith(".cmake") for n in files):
        files["top.cmake"] = 0
    # names differing only in letter case live side by side on a case-sensitive file system
    if "Zeta.cmake" in files and "zeta.cmake" not in t["dirs"]:
        files.setdefault("zeta.cmake", (files["Zeta.cmake"] + 1) if isinstance(files["Zeta.cmake"], int) else 1)
    dirs = dict(t["dirs"])
    if "Sub" in dirs and "sub" not in files:
        dirs.setdefault("sub", {"files": {"b.cmake": 2}, "dirs": {}})
    return {"files": files, "dirs": dirs}


def fill(tree, counter=None):
    """Replace content indices by unique source texts."""
    counter = counter if counter is not None else [0]
    files = {}
    for name in sorted(tree["files"]):
        counter[0] += 1
        v = tree["files"][name]
        files[name] = CONTENTS[v % len(CONTENTS)].replace("@", str(counter[0])) if isinstance(v, int) else v
    dirs = {name: fill(tree["dirs"][name], counter) for name in sorted(tree["dirs"])}
    return {"files": files, "dirs": dirs}


def ensure_lowercase_cmake(tree):
    """Carve-out of C13: where auto-exclusion applies, a directory with CMake files of any case also has a
    lower-case .cmake file."""
    files = dict(tree["files"])
    if any(is_cmake(n) for n in files) and not any(n.endswith(".cmake") for n in files):
        files["lower.cmake"] = 1
    return {"files": files, "dirs": {k: ensure_lowercase_cmake(v) for k, v in tree["dirs"].items()}}


# ------------------------------------------------------------------ reference model

def is_cmake(name):
    """'*.cmake file (extension matched case-insensitively)'."""
    return name.lower().endswith(".cmake") and len(name) > len(".cmake")


def stem_of(name):
    return name[:name.rfind(".")]


def has_lower_cmake(tree):
    return any(n.endswith(".cmake") for n in tree["files"])


def walk_model(tree, recursive, auto_exclude, excluded=None):
    """-> (processed dirs [rel paths, '' = input dir], processed files [rel paths]).
    excluded(rel, is_dir) -> bool implements the exclusion patterns (None: no patterns)."""
    excluded = excluded or (lambda rel, is_dir: False)
    dirs, files = [], []

    def visit(node, rel):
        dirs.append(rel)
        for name in sorted(node["files"]):
            p = (rel + "/" if rel else "") + name
            if is_cmake(name) and not excluded(p, False):
                files.append(p)
        if recursive:
            for name in sorted(node["dirs"]):
                p = (rel + "/" if rel else "") + name
                if excluded(p, True):
                    continue
                if auto_exclude and not has_lower_cmake(node["dirs"][name]):
                    continue
                visit(node["dirs"][name], p)
    visit(tree, "")
    return dirs, files


def expected_outputs(tree, recursive, auto_exclude, excluded=None):
    dirs, files = walk_model(tree, recursive, auto_exclude, excluded)
    out = set()
    for d in dirs:
        out.add((d + "/" if d else "") + "index.rst")
    for f in files:
        out.add(stem_of(f) + ".rst")
    return out, dirs, files


# ------------------------------------------------------------------ exclusion patterns (C15): own matcher

def _glob_re(pat):
    """fnmatch-like translation for one path component ('*' and '?' never cross '/')."""
    out = ""
    for ch in pat:
        if ch == "*":
            out += "[^/]*"
        elif ch == "?":
            out += "[^/]"
        else:
            out += re.escape(ch)
    return re.compile("^" + out + "$")


def pattern_matches(pattern, abs_path, is_dir):
    """gitignore semantics for the generated pattern forms over an absolute path.
    Forms: 'name', 'glob', 'name/', '**/name', '**/dir/name', '**/dir/name/', '/abs/path', '/abs/path/'."""
    comps = [c for c in abs_path.split("/") if c]
    dir_only = pattern.endswith("/")
    pat = pattern[:-1] if dir_only else pattern
    if pat.startswith("/"):
        pc = [c for c in pat.split("/") if c]

        def m(pi, ci):
            """pattern components pc[pi:] against a prefix of comps[ci:]; returns the set of end indexes reached"""
            if pi == len(pc):
                return {ci}
            if pc[pi] == "**":
                ends = set()
                for k in range(ci, len(comps) + 1):
                    ends |= m(pi + 1, k)
                return ends
            if ci < len(comps) and _glob_re(pc[pi]).match(comps[ci]):
                return m(pi + 1, ci + 1)
            return set()
        for end in m(0, 0):
            if end == len(comps):
                if is_dir or not dir_only:
                    return True
            elif end < len(comps) and end > 0:
                return True        # something below the named path
        return False
    if pat.startswith("**/"):
        pat = pat[3:]
    pc = pat.split("/")
    regs = [_glob_re(c) for c in pc]
    n = len(pc)
    for i in range(0, len(comps) - n + 1):
        if all(regs[j].match(comps[i + j]) for j in range(n)):
            last = i + n - 1
            last_is_dir = is_dir or last < len(comps) - 1
            if dir_only and not last_is_dir:
                continue
            return True
    return False


def make_excluded(patterns, input_abs):
    def excluded(rel, is_dir):
        p = input_abs.rstrip("/") + "/" + rel
        return any(pattern_matches(pt, p, is_dir) for pt in patterns)
    return excluded
