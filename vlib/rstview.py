"""Two views of generated reST (DESIGN.md 1.3).

(a) line view: indentation-based tree of directives, exact raw text (never str.splitlines).
(b) doctree view: docutils with stub directives for the Sphinx directives CMinx emits.
"""
import re

# texts of the notes / warnings CMinx generates itself (filled in by vlib.compare from the reference model); a note or
# warning directive without such a text was written by the user in a doccomment and is doc text
GENERATED_ADM_TEXTS = []

DIRECTIVE_RE = re.compile(r"^\.\. ([A-Za-z][\w:+.-]*):: ?(.*)$")
FIELD_RE = re.compile(r"^:([^:\s][^:]*|[^:\s]): ?(.*)$")


class Node:
    """A directive found by indentation."""

    def __init__(self, name, arg, line_no):
        self.name = name
        self.arg = arg
        self.line_no = line_no
        self.options = []     # [(name, value)] lines glued to the heading
        self.items = []       # ordered: ("text", line) | ("field", name, value) | ("dir", Node) | ("blank",)
        self.raw = []         # body lines, dedented by 3, as written

    @property
    def children(self):
        return [x[1] for x in self.items if x[0] == "dir"]

    @property
    def fields(self):
        return [(x[1], x[2]) for x in self.items if x[0] == "field"]

    @property
    def text(self):
        return [x[1] for x in self.items if x[0] == "text"]

    def _generated(self, c):
        if c.name not in ("note", "warning"):
            return False
        body = (c.arg + " " + " ".join(c.text)).lower()
        return not GENERATED_ADM_TEXTS or any(t.lower() in body for t in GENERATED_ADM_TEXTS)

    def admonitions(self):
        return [(c.name, c.arg, c) for c in self.children if self._generated(c)]

    def entries(self):
        return [c for c in self.children if c.name not in ("note", "warning")]

    def to_dict(self):
        return {"dir": self.name, "arg": self.arg, "options": self.options,
                "items": [x if x[0] != "dir" else ("dir", x[1].to_dict()) for x in self.items if x[0] != "blank"]}

    def doc_lines(self, generated_fields=()):
        """Body lines that stem from the doc text: plain text plus field-looking lines that are not
        among the fields the entry kind generates itself (generated ones are consumed once each, last first)."""
        gen = list(generated_fields)
        out = []
        # generated fields come after the doc text, so consume matches from the end
        flags = []
        for x in reversed(self.items):
            if x[0] == "field" and (x[1], x[2]) in gen:
                gen.remove((x[1], x[2]))
                flags.append(False)
            else:
                flags.append(True)
        flags.reverse()
        for x, keep in zip(self.items, flags):
            if x[0] == "text":
                out.append(x[1])
            elif x[0] == "field" and keep:
                out.append(x[3])
            elif x[0] == "dir" and x[1].name in ("note", "warning") and not self._generated(x[1]):
                # a directive the user wrote in the doccomment: its lines are doc text
                out.append(f".. {x[1].name}::" + (" " + x[1].arg if x[1].arg else ""))
                out += ["   " + l for l in x[1].raw if l.strip()]
        return out


def parse_block(lines, start_no=0):
    """lines: dedented body lines -> ordered items."""
    items = []
    i = 0
    n = len(lines)
    while i < n:
        line = lines[i]
        if line.strip() == "":
            items.append(("blank",))
            i += 1
            continue
        m = DIRECTIVE_RE.match(line)
        if m:
            node = Node(m.group(1), m.group(2), start_no + i)
            i += 1
            # options: lines directly after the heading, indented by exactly 3, of the form :name: value
            while i < n and lines[i].startswith("   ") and not lines[i].startswith("    ") \
                    and FIELD_RE.match(lines[i][3:]):
                fm = FIELD_RE.match(lines[i][3:])
                node.options.append((fm.group(1), fm.group(2)))
                i += 1
            body = []
            while i < n and (lines[i].strip() == "" or lines[i].startswith("   ")):
                body.append(lines[i][3:] if lines[i].strip() != "" else "")
                i += 1
            # trailing blank lines belong to the parent
            while body and body[-1] == "":
                body.pop()
                i -= 1
            node.raw = body
            node.items = parse_block(body, start_no + i - len(body))
            items.append(("dir", node))
            continue
        m = FIELD_RE.match(line)
        if m:
            items.append(("field", m.group(1), m.group(2), line))
        else:
            items.append(("text", line))
        i += 1
    return items


class Page:
    def __init__(self, text):
        self.text = text
        self.lines = text.split("\n")
        # title block: first three non-blank lines
        nb = [i for i, l in enumerate(self.lines) if l.strip() != ""]
        self.title_idx = nb[:3]
        self.over, self.title, self.under = ([self.lines[i] for i in nb[:3]] + [None, None, None])[:3]
        rest_start = (nb[2] + 1) if len(nb) >= 3 else len(self.lines)
        self.body_lines = self.lines[rest_start:]
        self.items = parse_block(self.body_lines, rest_start)

    @property
    def top(self):
        return [x[1] for x in self.items if x[0] == "dir"]

    @property
    def stray(self):
        """Column-0 material after the title that is not a directive."""
        return [x for x in self.items if x[0] in ("text", "field")]

    def module(self):
        mods = [n for n in self.top if n.name == "module"]
        return mods

    def entries(self):
        return [n for n in self.top if n.name != "module"]


def top_blocks(text):
    """Line view used with arbitrary doc text: column-0 directive headings delimit blocks.
    Returns [(name, arg, [body lines as written, not dedented])]."""
    lines = text.split("\n")
    blocks = []
    cur = None
    for l in lines:
        m = DIRECTIVE_RE.match(l)
        if m:
            cur = (m.group(1), m.group(2), [])
            blocks.append(cur)
        elif cur is not None:
            if l.strip() != "" and not l.startswith(" "):
                cur = None      # column-0 non-directive material ends the block
            else:
                cur[2].append(l)
    return blocks


# ------------------------------------------------------------------ doctree view

_registered = False


def _register():
    global _registered
    if _registered:
        return
    from docutils import nodes
    from docutils.parsers.rst import Directive, directives, roles

    class entry(nodes.General, nodes.Element):
        pass

    class Stub(Directive):
        has_content = True
        optional_arguments = 1
        final_argument_whitespace = True
        option_spec = {"value": directives.unchanged, "maxdepth": directives.unchanged,
                       "noindex": directives.flag, "type": directives.unchanged}

        def run(self):
            node = entry()
            node["dname"] = self.name
            node["darg"] = self.arguments[0] if self.arguments else ""
            node["doptions"] = dict(self.options)
            node["dline"] = self.lineno
            self.state.nested_parse(self.content, self.content_offset, node)
            return [node]

    for name in ("module", "function", "data", "py:class", "py:method", "py:attribute", "toctree"):
        directives.register_directive(name, Stub)

    def class_role(name, rawtext, text, lineno, inliner, options=None, content=None):
        return [nodes.literal(rawtext, text)], []

    roles.register_local_role("class", class_role)
    globals()["entry_node"] = entry
    _registered = True


def doctree(text):
    """Parse with docutils; returns (document, [(level, message text)])."""
    _register()
    import docutils.frontend
    import docutils.utils
    from docutils.parsers.rst import Parser
    settings = docutils.frontend.get_default_settings(Parser)
    settings.report_level = 5
    settings.halt_level = 5
    settings.warning_stream = None
    doc = docutils.utils.new_document("<cminx>", settings)
    Parser().parse(text, doc)
    from docutils import nodes
    msgs = [(m["level"], m.astext()) for m in doc.traverse(nodes.system_message)]
    return doc, msgs
