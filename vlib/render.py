"""AST + layout -> CMake source text (pure).  DESIGN.md 1.1.

Layout is a list of small integers consumed cyclically; every decision takes `next % n` and
choice 0 is always the canonical one, so layout [] gives the canonical rendering and two
layouts of one AST have the same token sequence by construction.

All annotation comments carry the text ZZCMT so their absence from the output is checkable.
"""

CMT_TEXT = [
    "ZZCMT plain comment",
    "function(ZZCMT_fn a b)",
    'ZZCMT "unbalanced quote',
    "ZZCMT ) (( ",
    "[ZZCMT bracket-like",
    "[=ZZCMT",
    "[==",
    "",
    "ZZCMT #]] not a closer",
    " ZZCMT \\x bad escape",
    "ZZCMT set(x 1) # nested",
    "ZZCMT ls\u2028 still the comment ) \x0c ff",
]
BRACKET_CMT = [
    "#[[ ZZCMT bracket ]]",
    "#[=[ ZZCMT ]] #]] #[[[ fake doc ]=]",
    "#[[\nset(ZZCMT_var 1)\nfunction(ZZCMT_f)\n]]",
    "#[==[ ZZCMT ]=] ]==]",
    "#[[ZZCMT \"]]",
    "#[=[\n#[[[\n# ZZCMT looks like a doccomment\n#]]\nZZCMT_cmd()\n]=]",
]


class Layout:
    def __init__(self, choices=None, force_doc_indent=None):
        self.c = list(choices or [])
        self.i = 0
        self.force_doc_indent = force_doc_indent
        self.features = set()
        # module-wide mode: no doccomment opener is the first thing on its line (a bracket comment precedes every one)
        self.all_openers_inline = bool(self.c) and len(self.c) >= 2 and (self.c[0] + self.c[-1]) % 7 == 3

    def pick(self, n):
        if not self.c:
            return 0
        v = self.c[self.i % len(self.c)]
        self.i += 1
        return v % n


INDENTS = ["", "  ", "\t", "    ", " \t", "\t\t", "        ", " ", "  \t", "\t  \t", "   \t ", "      \t\t"]
CASINGS = 3


def case_name(name, mode):
    if mode == 0:
        return name
    if mode == 1:
        return name.upper()
    return "".join(ch.upper() if i % 2 == 0 else ch.lower() for i, ch in enumerate(name))


def _line_comment(lay):
    return "#" + CMT_TEXT[lay.pick(len(CMT_TEXT))]


def _gap(lay, ind):
    """Text between two statements (after the newline that ended the previous one)."""
    k = lay.pick(10)
    if k == 0:
        return ""
    if k == 1:
        return "\n"
    if k == 2:
        return ind + _line_comment(lay) + "\n"
    if k == 3:
        return ind + BRACKET_CMT[lay.pick(len(BRACKET_CMT))] + "\n"
    if k == 4:
        return "#\n"
    if k == 5:
        return "\n\n"
    if k == 6:
        return ind + _line_comment(lay) + "\n" + ind + _line_comment(lay) + "\n"
    if k == 7:
        return " \t \n"
    if k == 8:
        return ind + BRACKET_CMT[lay.pick(len(BRACKET_CMT))] + " " + _line_comment(lay) + "\n"
    return "\n" + ind + "# ZZCMT\n\n"


def _sep(lay, ind, after_unquoted):
    """Separator between two arguments."""
    k = lay.pick(9)
    if k == 0:
        return " "
    if k == 1:
        return "  "
    if k == 2:
        return "\t"
    if k == 3:
        return "\n" + ind + "    "
    if k >= 4 and not (k == 7 and not after_unquoted) and k != 8:
        lay.features.add("comment-in-args")
    if k == 4:
        return " " + _line_comment(lay) + "\n" + ind + "  "
    if k == 5:
        return " " + BRACKET_CMT[lay.pick(len(BRACKET_CMT))] + " "
    if k == 6:
        return "\n" + _line_comment(lay) + "\n\t"
    if k == 7 and after_unquoted:
        lay.features.add("comment-glued-to-arg")
        return _line_comment(lay) + "\n "        # comment glued to an unquoted argument
    return " \n "


def _is_plain(arg):
    return isinstance(arg, str) and arg and arg[0] not in '"[' and not arg.endswith("]")


def render_args(args, lay, ind):
    """Arguments between '(' and ')' (exclusive)."""
    out = []
    k = lay.pick(4)
    out.append(["", " ", "\n" + ind + "  ", "\t"][k] if args else ["", " ", "", ""][k])
    prev = None
    for i, a in enumerate(args):
        if i > 0:
            if isinstance(a, list) and lay.pick(3) == 1:
                pass                                 # '(' may follow directly
            elif isinstance(prev, list) and lay.pick(3) == 1 and not isinstance(a, list):
                out.append(" ")                      # after ')' CMake wants separation; keep a space
            else:
                out.append(_sep(lay, ind, _is_plain(prev)))
        if isinstance(a, list):
            out.append("(" + render_args(a, lay, ind) + ")")
        else:
            out.append(a)
        prev = a
    if args:
        k = lay.pick(4)
        out.append(["", " ", "\n" + ind, " " + _line_comment(lay) + "\n" + ind][k])
    return "".join(out)


def render_cmd(name, args, lay, ind, last=False):
    mode = lay.pick(CASINGS)
    nm = case_name(name, mode)
    if mode and nm != name:
        lay.features.add("case:" + ("definition" if name in ("function", "macro") else
                                    "closing" if name.startswith("end") or name == "cpp_end_class" else "other"))
    sp = ["", " ", "", "\t"][lay.pick(4)]
    s = ind + nm + sp + "(" + render_args(args, lay, ind) + ")"
    k = lay.pick(5)
    s += ["", " ", " " + _line_comment(lay), " " + BRACKET_CMT[0], ""][k]
    return s + "\n"


def render_doc(doc, lay, module_name=False, head=None):
    """A doccomment block.  head: text after '#[[[' on the opening line (module docs)."""
    if lay.force_doc_indent is not None:
        ind = lay.force_doc_indent
        lay.pick(len(INDENTS))
    else:
        ind = INDENTS[lay.pick(len(INDENTS))]
    if doc.get("indent") is not None:
        ind = doc["indent"]           # indentation fixed by the AST (C01 draws arbitrary space/tab runs)
    if doc.get("form") == "bare":
        ind = ""
    if "\t" in ind:
        lay.features.add("doc-tab-indent")
    elif ind:
        lay.features.add("doc-space-indent")
    # the opener's own leading whitespace is inter-token whitespace (the token starts at '#[[['): it may differ
    # from the block indentation, and a bracket comment may precede the opener on its line
    k = lay.pick(8)
    if lay.all_openers_inline and doc.get("form") != "bare" and doc.get("indent") is None:
        k = 7
    lead = ind
    if doc.get("form") != "bare" and doc.get("indent") is None:
        if k == 5:
            lead = ind + "  "
            lay.features.add("doc-opener-extra-indent")
        elif k == 6:
            lead = ""
            if ind:
                lay.features.add("doc-opener-less-indent")
        elif k == 7:
            lead = ind + BRACKET_CMT[0] + " "
            lay.features.add("comment-before-doc-opener-on-same-line")
    if not head and doc.get("opener"):
        head = " " + doc["opener"]
    out = [lead + "#[[[" + (head or "")]
    for l in doc["lines"]:
        if l == "" and doc.get("empty_bare"):
            out.append("")                  # as left behind by editors that strip trailing blanks when re-indenting
        elif doc.get("form") == "bare":
            out.append(l)
        elif doc.get("form") == "mixed" and l != "" and l[0] not in " #[]" and (len(out) % 3 != 0):
            out.append(ind + "#" + l)       # '#' leader with zero following spaces (at most one is removed)
        else:
            out.append(ind + ("# " + l if l != "" else "#"))
    last = doc["lines"][-1] if doc["lines"] else ""
    if doc.get("close") == "inline" and doc.get("form") != "bare" and last.strip() and last.rstrip()[-1] not in "#]" and len(out) > 1:
        out[-1] = out[-1] + " #]]"       # grammar-legal: the block comment ends at the first '#]]'
        lay.features.add("doc-closed-on-last-text-line")
    else:
        out.append(ind + "#]]")
    return "\n".join(out) + "\n"


def _between_doc_and_cmd(lay, ind):
    k = lay.pick(6)
    if k in (2, 3, 4):
        lay.features.add("comment-between-doc-and-command")
    if k == 0:
        return ""
    if k == 1:
        return "\n"
    if k == 2:
        return ind + _line_comment(lay) + "\n"
    if k == 3:
        return ind + BRACKET_CMT[lay.pick(len(BRACKET_CMT))] + "\n"
    if k == 4:
        # also: a definition that was commented out line by line
        return "\n\n" + ind + "# ZZCMT between doc and command\n" + ind + "# function(ZZCMT_old a b)\n" + ind + "#   message(x)\n" + \
            ind + "# endfunction()\n"
    return " \n"


def test_args(it):
    if it.get("noname"):
        return list(it["pre"]) + list(it["post"])
    return list(it["pre"]) + ["NAME", it["name"]] + list(it["post"])


def render_items(items, lay, depth, out):
    base = INDENTS[lay.pick(4)] if depth else ""
    for it in items:
        ind = base
        out.append(_gap(lay, ind))
        k = it["k"]
        doc = it.get("doc")
        if doc is not None:
            out.append(render_doc(doc, lay))
            if k != "dangling":
                out.append(_between_doc_and_cmd(lay, ind))
        if k == "dangling":
            continue
        if k == "func":
            out.append(render_cmd(it["cmd"], [it["name"]] + it["params"], lay, ind))
            render_items(it["body"], lay, depth + 1, out)
            out.append(_gap(lay, ind))
            out.append(render_cmd("end" + it["cmd"], [it["name"]] if it.get("endarg") and _is_plain(it["name"]) else [],
                                  lay, ind))
        elif k == "set":
            out.append(render_cmd("set", [it["name"]] + it["values"], lay, ind))
        elif k == "option":
            out.append(render_cmd("option", [it["name"], it["help"]] + ([it["default"]] if it["default"] is not None else []),
                                  lay, ind))
        elif k == "generic":
            out.append(render_cmd(it["cmd"], it["args"], lay, ind))
        elif k == "block":
            out.append(render_cmd(it["open"], it["args"], lay, ind))
            render_items(it["body"], lay, depth + 1, out)
            out.append(_gap(lay, ind))
            out.append(render_cmd({"if": "endif", "foreach": "endforeach", "while": "endwhile"}[it["open"]], [], lay, ind))
        elif k == "parseargs":
            out.append(render_cmd("cmake_parse_arguments", it["args"], lay, ind))
        elif k == "class":
            out.append(render_cmd("cpp_class", [it["name"]] + it["bases"], lay, ind))
            render_items(it["body"], lay, depth + 1, out)
            out.append(_gap(lay, ind))
            out.append(render_cmd("cpp_end_class", [], lay, ind))
        elif k == "attr":
            out.append(render_cmd("cpp_attr", [it["cls"], it["name"]] + it["extra"], lay, ind))
        elif k == "member":
            out.append(render_cmd("cpp_constructor" if it["ctor"] else "cpp_member",
                                  [it["name"], it["cls"]] + it["types"], lay, ind))
            _render_impl(it, [_impl_name(it), it["impl"].get("selfname", "self")], lay, depth, out, ind)
        elif k in ("test", "section"):
            out.append(render_cmd("ct_add_test" if k == "test" else "ct_add_section", test_args(it), lay, ind))
            _render_impl(it, [_impl_name(it)], lay, depth, out, ind)
        elif k == "addtest":
            out.append(render_cmd("add_test", test_args(it), lay, ind))
        else:
            raise ValueError(k)


def _impl_name(it):
    from .gen_cmake import impl_name
    return impl_name(it)


def _render_impl(it, lead, lay, depth, out, ind):
    impl = it["impl"]
    # only layout (whitespace / annotation comments) between a declaration and its implementation
    out.append(_gap(lay, ind))
    if lay.c and (lay.c[lay.i % len(lay.c)] + lay.i) % 6 == 2:
        # a long stretch of hidden material (no choice is consumed: older replay files render as before)
        lay.features.add("long-gap-before-implementation")
        out.append("\n\n" + ind + "# ZZCMT a longer note\n" * 4 + "\n" + ind + "#[[ ZZCMT\n\n\n\n\n]]\n\n" + ind + "# ZZCMT\n\n")
    if impl.get("doc") is not None:
        out.append(render_doc(impl["doc"], lay))
        out.append(_between_doc_and_cmd(lay, ind))
    out.append(render_cmd(impl["cmd"], lead + impl["params"], lay, ind))
    render_items(impl["body"], lay, depth + 1, out)
    out.append(_gap(lay, ind))
    out.append(render_cmd("end" + impl["cmd"], [], lay, ind))


def render(module, layout=None, force_doc_indent=None, eof_newline=True, features=None):
    lay = layout if isinstance(layout, Layout) else Layout(layout, force_doc_indent)
    if features is not None:
        lay.features = features
    out = []
    md = module.get("moddoc")
    if md is not None:
        # the module doccomment must be the first non-comment element
        out.append(_gap(lay, ""))
        # the grammar allows any run of blanks/tabs (or none) before '@module' and between it and the name
        head = [" @module", "@module", " @module", "  @module", "\t@module", " \t @module"][lay.pick(6)]
        if md["name"] is not None:
            head += [" ", " ", "  ", "\t"][lay.pick(4)] + md["name"]
        out.append(render_doc({"lines": md["lines"], "form": "leader", "indent": md.get("indent")}, lay, head=head))
    render_items(module["items"], lay, 0, out)
    out.append(_gap(lay, ""))
    if len(lay.c) >= 2 and (lay.c[0] * 3 + lay.c[-1]) % 7 == 5:
        # a first-line comment that reads like an encoding declaration of other languages (to CMake: a comment)
        lay.features.add("encoding-cookie-comment")
        out.insert(0, ["# -*- coding: latin-1 -*-\n", "# vim: set fileencoding=cp1252 :\n", "#!/usr/bin/cmake -P\n# coding=ascii\n"][lay.c[0] % 3])
    text = "".join(out)
    if not eof_newline and text.endswith("\n"):
        text = text[:-1]
    return text
