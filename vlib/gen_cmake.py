"""Hypothesis strategies producing CMake module ASTs (JSON-serialisable) - DESIGN.md 1.1.

The strategy draws a *skeleton*; `finalize()` numbers every name and doc marker so that all
names are unique by construction (no filtering).  Arguments are raw source strings; a
parenthesised group is a list.

Item kinds (dict key "k"):
  func     cmd(function|macro) name params doc body endarg
  set      name values doc
  option   name help default doc
  generic  cmd args doc
  block    open(if|foreach|while) args doc body
  parseargs args
  class    name bases doc body
  attr     cls name extra doc
  member   ctor name cls types doc impl{cmd params body}
  test     pre name post doc impl          (ct_add_test)
  section  pre name post doc impl          (ct_add_section)
  addtest  pre name post doc
  dangling doc
Doc: {"lines": [...], "form": "leader"|"bare", "marker": "DOCn"}   (marker text is part of one line)
Module: {"moddoc": None | {"name": str|None, "lines": [...], "marker"}, "items": [...]}
"""
from hypothesis import strategies as st

# ------------------------------------------------------------------ argument templates ('@' -> unique number)

IDENT_T = ["a@", "fn_@", "Var@", "_x@", "ARG_@", "v@_name"]
NONASCII_IDENT_T = ["t\u00fcr@_breite", "ma\u00df@", "\u00e9l@_x"]        # parameters are any unquoted text for CMake
UNQ_T = ["a-@.b", "@", "x@/y", "@.5", "-D@", "a@+b", "k@=v", "a@:b", "<@>", "a@,b", "é@", "x@*",
         "e\u0301@", "\u212a@\u00b2", "%d@", "100%%@"]      # decomposed / compatibility characters, printf-like text
QUOTED_T = ['"q@"', '"two words @"', '"a;b;@"', '"#@"', '"line\\nbreak@"', '"@ ${v}"', '"esc\\"@"', '"(@)"', '"[@]"', '" @ "',
            '"tab\\t@"', '"$<@>"', '"@@"', '"ü@"', '"cr\\r@\\;semi"']
VAR_T = ["${v@}", "${a@_b}", "$ENV{E@}", "${${n@}}", "pre${v@}post"]
BRACKET_T = ["[[b@]]", "[=[b@]=]", "[=[x]]@]=]", "[[b @ c]]", "[==[]=]@]==]", "[[(@]]", '[["@]]', "[[#@]]"]
SINGLE_T = IDENT_T + UNQ_T + QUOTED_T + VAR_T + BRACKET_T
# values of set(): additionally quoted arguments spanning lines (continuation / embedded newline)
SET_VALUE_T = SINGLE_T + ['"cont @\\\nnext"', '"nl @\nnext"']

GENERIC_CMDS = ["message", "include", "list", "add_library", "find_package", "include_guard", "project",
                "install", "string", "file", "target_link_libraries", "unset", "return", "my_custom_cmd",
                "MyProj_Helper2", "add_subdirectory", "cpp_set_global", "ct_assert_equal", "_private_cmd",
                "_add_test", "_option", "_set", "__ct_add_test", "_cpp_attr", "set_property", "function_helper", "optional"]
BLOCKS = {"if": "endif", "foreach": "endforeach", "while": "endwhile"}

WORDS = ["alpha", "beta", "gamma", "delta", "value", "returns", "the", "of", "a", "list", "target", "path",
         "when", "set", "name", "result", "string", "option", "build", "flag"]


def _same(x):
    return x


def rep(strategy, n):
    """n distinct strategy objects equivalent to `strategy` (one_of dedupes identical objects,
    so weighting needs distinct ones)."""
    return [strategy] + [strategy.map(_same) for _ in range(max(0, n - 1))]


def weighted(*pairs):
    """weighted((3, s1), (1, s2)) -> one_of with s1 three times as likely as s2."""
    alts = []
    for w, strat in pairs:
        alts += rep(strat, w)
    return st.one_of(*alts)


def ident():
    return st.sampled_from(IDENT_T)


def single(pool=None):
    return st.sampled_from(pool or SINGLE_T)


def name_arg():
    """Names of definitions: mostly identifiers, sometimes any other single-argument form."""
    return weighted((3, ident()), (1, st.sampled_from(QUOTED_T[:3] + VAR_T[:3] + UNQ_T[:3] + BRACKET_T[:2])))


def arglist(min_size=0, max_size=4, pool=None):
    return st.lists(st.one_of(ident(), single(pool)), min_size=min_size, max_size=max_size)


def group_args(depth=2, max_size=4, pool=None):
    """Arguments with parenthesised groups."""
    base = st.one_of(ident(), single(pool))
    if depth <= 0:
        return st.lists(base, max_size=max_size)
    return st.lists(weighted((3, base), (1, st.deferred(lambda: group_args(depth - 1, 3, pool)))), max_size=max_size)


# ------------------------------------------------------------------ doc text profiles

def benign_line():
    return st.lists(st.sampled_from(WORDS), min_size=1, max_size=6).map(lambda w: " ".join(w).capitalize() + ".")


def benign_doc(max_lines=4):
    return st.fixed_dictionaries({
        "lines": st.lists(weighted((3, benign_line()), (1, st.just(""))), min_size=0, max_size=max_lines),
        "form": st.sampled_from(["leader", "leader", "leader", "bare"]),
        "mpos": st.integers(0, 8),
    })


def maybe(strategy, p_none=0.5):
    if p_none >= 0.5:
        return st.one_of(st.none(), strategy)
    return weighted((1, st.none()), (3, strategy))


# ------------------------------------------------------------------ items

class Profile:
    def __init__(self, doc=None, p_doc_mostly=False, max_items=8, depth=3, kinds=None, body_max=4,
                 dangling=True, classes=True, tests=True, groups=True, moddoc=True, parseargs=True,
                 moddoc_indent=None, set_values=None, option_help=None, weights=None, generic_cmds=None,
                 arg_pool=None, group_depth=2, max_args=4, min_items=0, impl_doc=False, nest_all=False, dups=False, dup_classes=False):
        self.doc = doc if doc is not None else benign_doc()
        self.p_doc_mostly = p_doc_mostly
        self.max_items = max_items
        self.depth = depth
        self.kinds = kinds
        self.body_max = body_max
        self.dangling = dangling
        self.classes = classes
        self.tests = tests
        self.groups = groups
        self.moddoc = moddoc
        self.parseargs = parseargs
        self.moddoc_indent = moddoc_indent
        self.set_values = set_values
        self.option_help = option_help
        self.weights = weights or {}
        self.generic_cmds = generic_cmds
        self.arg_pool = arg_pool
        self.group_depth = group_depth
        self.max_args = max_args
        self.min_items = min_items
        self.impl_doc = impl_doc          # implementing definitions may carry a doccomment of their own
        self.nest_all = nest_all          # tests and classes may also sit inside function/macro bodies
        self.dups = dups                  # some items re-use the name of the previous item of their kind
        self.dup_classes = dup_classes    # ... classes too (same name and bases, undocumented)

    def mdoc(self):
        return maybe(self.doc, 0.2 if self.p_doc_mostly else 0.5)


def _impl(p, depth, kind):
    body_kinds = "body-test" if kind in ("test", "section") else "body"
    d = {
        "selfname": st.sampled_from(["self", "self", "self", "this", "_self", "SELF", "me"]),
        "cmd": st.sampled_from(["function", "function", "macro"]),
        # after name (and self for members): identifiers, sometimes names with characters special in regular expressions
        "params": st.lists(weighted((6, ident()), (1, st.sampled_from(["dest_host_name_v@", "_", "vals@[]", "*args@", "c++@", "row@[", "x@**", "p@{}", "a@|b"]))),
                           min_size=0, max_size=5),
        "body": items(p, depth - 1, body_kinds, p.body_max),
    }
    if p.impl_doc:
        d["doc"] = weighted((4, st.none()), (1, p.doc))
    return st.fixed_dictionaries(d)


def item(p, depth, ctx):
    """ctx: 'top' | 'body' | 'body-test' | 'class' | 'block'."""
    alts = []

    def want(k):
        return p.kinds is None or k in p.kinds

    sub = depth > 0
    if want("func"):
        f = st.fixed_dictionaries({
            "k": st.just("func"), "cmd": st.sampled_from(["function", "macro"]), "name": name_arg(),
            "params": arglist(0, 4, IDENT_T + QUOTED_T[:4] + VAR_T[:3] + BRACKET_T[:3] + NONASCII_IDENT_T), "doc": p.mdoc(),
            "body": items(p, depth - 1, "body", p.body_max) if sub else st.just([]),
            "endarg": st.booleans(),
        })
        alts += rep(f, 2)
    if want("set"):
        alts.append(st.fixed_dictionaries({"k": st.just("set"), "name": ident(),
                                           "values": p.set_values if p.set_values is not None else arglist(0, 4, SET_VALUE_T),
                                           "doc": p.mdoc()}))
    if want("option"):
        alts.append(st.fixed_dictionaries({"k": st.just("option"), "name": ident(),
                                           "help": p.option_help if p.option_help is not None else
                                           st.sampled_from(QUOTED_T[:2] + ['"Help text @"', "HELP@"]),
                                           "default": maybe(st.sampled_from(["ON", "OFF", "${dflt@}", '"ON"', "TRUE"])),
                                           "doc": p.mdoc()}))
    if want("generic"):
        alts.append(st.fixed_dictionaries({"k": st.just("generic"), "cmd": st.sampled_from(p.generic_cmds or GENERIC_CMDS),
                                           "args": weighted((12, group_args(p.group_depth if p.groups else 0, p.max_args, p.arg_pool)),
                                                            # a very long argument list (the signature line grows far beyond 200 columns)
                                                            (1, st.lists(st.sampled_from(["src/long_directory_name/file_@.cpp", "ITEM_@", '"quoted value @"']),
                                                                         min_size=20, max_size=40))),
                                           "doc": p.mdoc()}))
    if want("block") and sub:
        alts.append(st.fixed_dictionaries({"k": st.just("block"), "open": st.sampled_from(sorted(BLOCKS)),
                                           "args": group_args(1 if p.groups else 0).filter(lambda a: len(a) > 0),
                                           "doc": p.mdoc(),
                                           "body": items(p, depth - 1, "block" if ctx in ("top", "block", "class") else ctx,
                                                         p.body_max)}))
    if want("parseargs") and p.parseargs:
        alts.append(st.fixed_dictionaries({"k": st.just("parseargs"), "args": arglist(1, 4)}))
    if want("class") and p.classes and sub and (ctx in ("top", "class", "block") or p.nest_all):
        alts.append(st.fixed_dictionaries({"k": st.just("class"), "name": ident(),
                                           "bases": st.lists(ident(), max_size=3), "doc": p.mdoc(),
                                           "body": items(p, depth - 1, "class", p.body_max + 2)}))
    if ctx == "class":
        if want("attr"):
            alts += rep(st.fixed_dictionaries({"k": st.just("attr"), "cls": ident(), "name": ident(),
                                               "extra": arglist(0, 2), "doc": p.mdoc()}), 3)
        if want("member"):
            m = st.fixed_dictionaries({"k": st.just("member"), "ctor": st.booleans(),
                                       "name": ident(), "cls": ident(),
                                       "types": st.lists(st.sampled_from(["int", "str", "bool", "desc", "T@", "args", "list*"]),
                                                         max_size=4),
                                       "doc": p.mdoc(), "impl": _impl(p, depth, "member")})
            alts += rep(m, 5)
    if want("test") and p.tests and sub and (ctx in ("top", "block", "class") or p.nest_all):
        alts.append(_testlike(p, depth, "test"))
    if want("section") and p.tests and sub and ctx == "body-test":
        s = _testlike(p, depth, "section")
        alts += rep(s, 2)
    if want("addtest") and p.tests and ctx in ("top", "block"):
        alts.append(st.fixed_dictionaries({"k": st.just("addtest"), "pre": _test_extra(), "name": _test_name(),
                                           "post": _test_extra(), "doc": p.mdoc(),
                                           "noname": st.sampled_from([False] * 5 + [True])}))
    if p.dangling and want("dangling"):
        alts.append(st.fixed_dictionaries({"k": st.just("dangling"), "doc": p.doc}))
    if p.dups:
        alts = [a if _kind_of(a) in (None, "generic", "block", "parseargs", "dangling") + (() if p.dup_classes else ("class",)) else
                st.tuples(a, st.sampled_from([True] + [False] * (7 if p.dups is True else int(p.dups)))).map(_with_dup) for a in alts]
    if p.weights:
        # alternatives are dict strategies with a fixed "k"; repeat them by weight (0 drops the kind here)
        wl = []
        seen = set()
        for a in alts:
            if id(a) in seen or _kind_of(a) is None and False:
                continue
            seen.add(id(a))
            k = _kind_of(a)
            w = p.weights.get(k, 1)
            if w > 0:
                wl += rep(a, w)
        alts = wl or alts
    return st.one_of(*alts)


def _with_dup(t):
    d = dict(t[0])
    if t[1]:
        d["dup"] = True
    return d


def _kind_of(strategy):
    try:
        return strategy.mapped_strategy.element_strategies[0].mapping["k"].value
    except Exception:
        pass
    try:
        return strategy.wrapped_strategy.mapping["k"].value
    except Exception:
        try:
            return strategy.mapping["k"].value
        except Exception:
            return None


def _test_name():
    return st.one_of(ident(), st.sampled_from(["trim_@_", '"test name @"', "${t@}", "t-@", "NAMED@", "EXPECTFAILURE@", "rate_%d_@", "half_50%_@",
                                               "cov_100%%_@", "te\u0301st@", "\u212b@"]))


def _test_extra():
    return st.lists(st.sampled_from(["EXPECTFAIL", "COMMAND", "--prefix=out@_", "--flag@", "${exe@}", "XNAME", "NAME_@", "EXPECTFAIL_NOT@",
                                     "WORKING_DIRECTORY", '"a b @"', "=NAME=", "same", '"a  b\t@"', '" lead @"', "[[x  y @]]"]), max_size=3)


def _testlike(p, depth, kind):
    return st.fixed_dictionaries({"k": st.just(kind), "pre": _test_extra().map(lambda l: [x for x in l if x != "same"]),
                                  "name": _test_name(), "post": _test_extra().map(lambda l: [x for x in l if x != "same"]),
                                  "doc": p.mdoc(), "impl": _impl(p, depth, kind)})


def items(p, depth, ctx, max_size, min_size=0):
    if depth < 0:
        return st.just([])
    return st.lists(st.deferred(lambda: item(p, depth, ctx)), min_size=min_size, max_size=max_size)


def module(p, repeat=None):
    """repeat: strategy of ints - the drawn item list is tiled that many times before finalisation (every copy gets
    names and markers of its own), which gives modules of hundreds of items at the cost of a small draw."""
    moddoc = st.none()
    if p.moddoc:
        moddoc = weighted((2, st.none()), (1, st.fixed_dictionaries({
            "name": st.one_of(st.none(), st.sampled_from(["mod_@", "My.Module@", "Find@.cmake", "pkg/mod@", "m@-x", "mödul@", "名前@", "x@.CMAKE", "\u0e01\u0e34@", "\u0915\u093e@"])),
            "lines": st.lists(benign_line(), max_size=3) if p.doc is None else p.doc.map(lambda d: d["lines"]),
            "mpos": st.integers(0, 8),
            "indent": st.none() if p.moddoc_indent is None else p.moddoc_indent})))
    sk = st.fixed_dictionaries({"moddoc": moddoc, "items": items(p, p.depth, "top", p.max_items, p.min_items)})
    if repeat is None:
        return sk.map(finalize)
    return st.tuples(sk, repeat).map(lambda t: finalize({"moddoc": t[0]["moddoc"], "items": list(t[0]["items"]) * t[1]}))


# ------------------------------------------------------------------ finalisation: unique numbering, dangling placement

class _Counter:
    def __init__(self):
        self.n = 0
        self.last = {}      # kind -> last name given to an item of that kind (for deliberate duplicates)
        self.classes = []   # names of the classes currently open
        self.defs = []      # enclosing function/macro items (finished header fields)

    def next(self):
        self.n += 1
        return self.n


def _num(x, c):
    if isinstance(x, list):
        return [_num(y, c) for y in x]
    if isinstance(x, str) and "@" in x:
        n = str(c.next())
        return x.replace("@", n)
    return x


def _cls_ref(c, fresh):
    """Class argument of cpp_member/cpp_attr: an unrelated name, the innermost or the OUTERMOST enclosing class
    (the entry belongs to the innermost open class whatever this argument says)."""
    if not c.classes:
        return fresh
    k = c.n % 3
    return fresh if k == 0 else c.classes[-1] if k == 1 else c.classes[0]


def _dup_name(c, kind, fresh, dup):
    """Deliberate duplicate: re-use the name of an earlier item of this kind - the previous one or the one before
    it (A B A), so that a differently named item may sit between the two."""
    hist = c.last.setdefault(kind, [])
    if dup and hist:
        name = hist[-2] if len(hist) >= 2 and c.n % 2 == 0 else hist[-1]
    else:
        name = fresh
    hist.append(name)
    return name


def _fin_doc(d, c, bare_ok=True):
    if d is None:
        return None
    lines = list(d["lines"])
    marker = f"DOC{c.next()}M"
    form = d.get("form", "leader")
    if lines:
        i = d.get("mpos", 0) % len(lines)
        lines[i] = (lines[i] + " " + marker) if lines[i] else marker
    else:
        lines = [marker + " only."] if d.get("mpos", 0) % 2 == 0 else []
        if not lines:
            marker = None
    if form == "bare":
        # leader-less form is only defined for lines starting with a letter (and non-empty docs)
        if not lines or not all(l == "" or l[0].isalpha() for l in lines) or not bare_ok:
            form = "leader"
    out = {"lines": lines, "form": form, "marker": marker}
    if d.get("close"):
        out["close"] = d["close"]       # "inline": the closing '#]]' ends the last text line
    for k in ("opener", "empty_bare"):   # text on the '#[[[' line; empty lines written without leader and indentation
        if d.get(k):
            out[k] = d[k]
    if d.get("indent") is not None:
        out["indent"] = d["indent"] if form != "bare" else ""
    return out


def _fin_items(lst, c, in_body):
    out = []
    for it in lst:
        it = dict(it)
        k = it["k"]
        dup = it.pop("dup", False)
        if k == "func":
            it["name"] = _dup_name(c, "func", _num(it["name"], c), dup)
            it["params"] = _num(it["params"], c)
            if dup and c.n % 3 == 0 and c.last.get("func-params") is not None:
                it["params"] = list(c.last["func-params"])      # a redefinition with the identical parameter list
            if c.n % 9 == 4:
                # a signature far wider than any line-folding threshold; the quoted form also holds runs of blanks
                it["params"] = it["params"] + [("wide_parameter_%d_" % c.next() + "x" * 110) if c.n % 2 else
                                               ('"wide  quoted   parameter %d ' % c.next() + "y  " * 40 + '"')]
            c.last["func-params"] = list(it["params"])
            if dup and c.defs and c.defs[-1]["doc"] is None and c.n % 2 == 0:
                # the "run once" idiom: a nested definition that repeats its (undocumented) enclosing definition exactly
                par = c.defs[-1]
                it["cmd"], it["name"], it["params"], it["doc"] = par["cmd"], par["name"], list(par["params"]), None
                c.last["func"][-1] = it["name"]
                it["redef"] = True
            it["doc"] = _fin_doc(it["doc"], c)
            c.defs.append(it)
            it["body"] = _fin_items(it["body"], c, True)
            c.defs.pop()
        elif k == "set":
            it["name"] = _dup_name(c, "set", _num(it["name"], c), dup)
            it["values"] = _num(it["values"], c)
            if c.n % 6 == 0 and it["name"].isidentifier():
                it["values"] = it["values"][:1] + [it["name"]] + it["values"][1:3]      # a value spelled like the variable itself
            it["doc"] = _fin_doc(it["doc"], c)
        elif k == "option":
            fresh_opt = _num(it["name"], c)
            if dup and c.last.get("set") and c.n % 2 == 1:
                it["name"] = c.last["set"][-1]          # an option named like an earlier set() variable
                c.last.setdefault("option", []).append(it["name"])
            else:
                it["name"] = _dup_name(c, "option", fresh_opt, dup)
            it["help"] = _num(it["help"], c)
            it["default"] = _num(it["default"], c)
            it["doc"] = _fin_doc(it["doc"], c)
        elif k == "generic":
            it["args"] = _num(it["args"], c)
            it["doc"] = _fin_doc(it["doc"], c)
            if it["doc"] is None:
                # undocumented generic commands carry a unique marker argument so absence is checkable
                it["args"] = [f"UNDOC_{c.next()}_G"] + it["args"]
        elif k == "block":
            it["args"] = _num(it["args"], c)
            it["doc"] = _fin_doc(it["doc"], c)
            if it["doc"] is None:
                it["args"] = [f"UNDOC_{c.next()}_B"] + it["args"]
            it["body"] = _fin_items(it["body"], c, True)
        elif k == "parseargs":
            it["args"] = _num(it["args"], c)
        elif k == "class":
            it["name"] = _dup_name(c, "class", _num(it["name"], c), dup)
            it["bases"] = _num(it["bases"], c)
            if dup and c.last.get("class-bases") is not None:
                it["bases"], it["doc"] = list(c.last["class-bases"]), None      # a class declared again: same name and bases
            if it["bases"] and c.n % 5 == 0:
                it["bases"] = it["bases"] + [it["bases"][0]]        # the same base named twice
            if c.n % 4 == 1:
                it["bases"] = it["bases"] + [("obj", "OBJ", "Obj")[c.n % 3]]       # the CMakePP root class, as any other base
            c.last["class-bases"] = list(it["bases"])
            it["doc"] = _fin_doc(it["doc"], c)
            c.classes.append(it["name"])
            it["body"] = _fin_items(it["body"], c, True)
            c.classes.pop()
        elif k == "attr":
            it["cls"] = _cls_ref(c, _num(it["cls"], c))
            it["name"] = _dup_name(c, "attr", _num(it["name"], c), dup)
            it["extra"] = _num(it["extra"], c)
            it["doc"] = _fin_doc(it["doc"], c)
        elif k in ("member", "test", "section"):
            it["name"] = _dup_name(c, k, _num(it["name"], c), dup)
            if k == "member":
                it["cls"] = _cls_ref(c, _num(it["cls"], c))
                it["types"] = _num(it["types"], c)
            else:
                it["pre"] = _num(it["pre"], c)
                it["post"] = _num(it["post"], c)
            it["doc"] = _fin_doc(it["doc"], c)
            impl = dict(it["impl"])
            impl["params"] = _num(impl["params"], c)
            if impl.get("doc") is not None:
                impl["doc"] = _fin_doc(impl["doc"], c)
            impl["body"] = _fin_items(impl["body"], c, True)
            it["impl"] = impl
        elif k == "addtest":
            if it.pop("noname", False) and len(it["pre"]) + len(it["post"]) >= 2:
                it["noname"] = True       # classic positional form add_test(<name> <command> ...): no NAME keyword
            it["name"] = _dup_name(c, "addtest", _num(it["name"], c), dup)
            it["pre"] = [it["name"] if x == "same" else x for x in _num(it["pre"], c)]
            it["post"] = [it["name"] if x == "same" else x for x in _num(it["post"], c)]
            it["doc"] = _fin_doc(it["doc"], c)
        elif k == "dangling":
            it["doc"] = _fin_doc(it["doc"], c)
        out.append(it)
        if it.get("redef") and c.n % 3 != 0:
            # ... followed, in the enclosing body, by a cmake_parse_arguments call (belongs to the enclosing definition)
            out.append({"k": "parseargs", "args": [f"PA{c.next()}", '""', '""', '""']})
    # a dangling doccomment must be followed by another doccomment (or EOF at top level): the grammar
    # attaches a doccomment to whatever command follows it
    fixed = []
    for i, it in enumerate(out):
        if it["k"] == "dangling":
            nxt = out[i + 1] if i + 1 < len(out) else None
            ok = (nxt is None and not in_body) or (nxt is not None and (nxt["k"] == "dangling" or nxt.get("doc")))
            if not ok:
                continue
        fixed.append(it)
    # dropping may have broken an earlier dangling's successor; iterate to a fixed point
    if len(fixed) != len(out):
        return _fix_dangling(fixed, in_body)
    return fixed


def _fix_dangling(lst, in_body):
    while True:
        out = []
        for i, it in enumerate(lst):
            if it["k"] == "dangling":
                nxt = lst[i + 1] if i + 1 < len(lst) else None
                ok = (nxt is None and not in_body) or (nxt is not None and (nxt["k"] == "dangling" or nxt.get("doc")))
                if not ok:
                    continue
            out.append(it)
        if len(out) == len(lst):
            return out
        lst = out


def finalize(skel):
    c = _Counter()
    md = skel.get("moddoc")
    if md is not None:
        lines = list(md["lines"])
        marker = f"DOC{c.next()}M"
        if lines:
            i = md.get("mpos", 0) % len(lines)
            lines[i] = (lines[i] + " " + marker) if lines[i] else marker
        else:
            marker = None
        md = {"name": _num(md["name"], c), "lines": lines, "marker": marker, "indent": md.get("indent")}
    return {"moddoc": md, "items": _fin_items(skel["items"], c, False)}


# ------------------------------------------------------------------ helpers over finished ASTs

def impl_name(it):
    """Name argument of the definition implementing a member/test declaration (as CMakePP/CMakeTest write it)."""
    import re
    return "${" + re.sub(r"[^A-Za-z0-9_]", "_", it["name"].strip('"${}[]=')) + "}"


def walk(items_, depth=0, parent=None):
    """Pre-order over all items incl. bodies and implementations: yields (item, depth, parent)."""
    for it in items_:
        yield it, depth, parent
        if "body" in it:
            yield from walk(it["body"], depth + 1, it)
        if "impl" in it:
            yield from walk(it["impl"]["body"], depth + 1, it)


def layout_choices(max_size=48):
    """Layout = list of small ints consumed cyclically by render(); [] is the canonical layout."""
    return st.one_of(st.just([]), st.lists(st.integers(0, 23), min_size=1, max_size=max_size))
