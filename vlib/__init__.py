"""Shared machinery of the CMinx property checks (see /verif/DESIGN.md section 1)."""
import os
import sys

VERIF = os.path.dirname(os.path.dirname(os.path.abspath(__file__)))
REPO = os.environ.get("CMINX_REPO", "/repo")
SRC = os.environ.get("CMINX_SRC", os.path.join(REPO, "src"))


def use_repo_source():
    """Make `import cminx` resolve to the working tree under test."""
    if sys.path[0] != SRC:
        if SRC in sys.path:
            sys.path.remove(SRC)
        sys.path.insert(0, SRC)
    import warnings
    warnings.filterwarnings("ignore", category=UserWarning)
    warnings.filterwarnings("ignore", category=DeprecationWarning)
