"""Model-vs-page comparison shared by C02, C03, C08-C11 (field-level, bucket keys name the clause)."""
import re

from .model import ADM_TEXT
from . import rstview as _V
_V.GENERATED_ADM_TEXTS[:] = sorted(set(ADM_TEXT.values()))


def nb(lines):
    return [l for l in lines if l.strip() != ""]


def ident_of(e):
    return (e["dir"], e.get("name"))


def actual_name(node):
    """Name part of a directive argument 'name(args)' (names may themselves contain parentheses
    when written as quoted/bracket arguments, so the expected name is used to split)."""
    return node.arg


def split_sig(arg, name):
    """-> (name part, inside of the outer parentheses) or None."""
    if arg.startswith(name + "(") and arg.endswith(")"):
        return name, arg[len(name) + 1:-1]
    if arg.lower().startswith(name.lower() + "(") and arg.endswith(")"):
        return arg[:len(name)], arg[len(name) + 1:-1]
    return None


def match_tokens(actual, toks):
    """True iff `actual` is the tokens in order, exact inside every token, any whitespace between them."""
    pos = 0
    for t in toks:
        while pos < len(actual) and actual[pos] in " \t\r\n":
            pos += 1
        if not actual.startswith(t, pos):
            return False
        pos += len(t)
    return actual[pos:].strip(" \t\r\n") == ""


def check_adm(e, node, fails, where):
    act = [(n, a) for n, a, _ in node.admonitions()]
    exp = e.get("adm") or []
    if len(act) != len(exp):
        fails.append((f"adm-count:{e.get('kind')}", f"{where}: expected admonitions {exp}, got {act}"))
        return
    for (kind, cls), (aname, aarg) in zip(exp, act):
        body = aarg + " " + " ".join(t for _, _, c in node.admonitions() for t in c.text)
        if aname != kind:
            fails.append((f"adm-kind:{e.get('kind')}", f"{where}: expected {kind} got {aname}"))
        elif ADM_TEXT[(kind, cls)].lower() not in body.lower():
            fails.append((f"adm-text:{e.get('kind')}", f"{where}: {kind} text {body!r} lacks {ADM_TEXT[(kind, cls)]!r}"))
        # the do-not-call warnings must be the right one
        if kind == "warning":
            for (k2, c2), txt in ADM_TEXT.items():
                if k2 == "warning" and c2 != cls and txt.lower() in body.lower():
                    fails.append((f"adm-text:{e.get('kind')}", f"{where}: warning text of {c2} on a {cls}"))


def generated_fields(e):
    """(name, value) pairs the entry kind emits itself, as they appear in the raw line view."""
    out = []
    fields = e.get("fields") or []
    multiline = any(isinstance(v, str) and "\n" in v for _, v in fields)
    for n, v in fields:
        out.append((n, "None" if v is None else v.split("\n")[0] if isinstance(v, str) else v))
    if multiline:
        # the continuation lines of the value end the directive; the fields after it are outside the entry
        out = [x for x in out if x[0] == "Default value"]
    return out


def check_doc(e, node, fails, where, text=None):
    act = nb(node.doc_lines(generated_fields(e)) if text is None else text)
    exp = nb(e.get("doc") or [])
    if act != exp:
        fails.append((f"doc:{e.get('kind') or e['dir']}", f"{where}: doc lines expected {exp!r} got {act!r}"))


def check_sig(e, node, fails, where):
    kind = e.get("kind")
    if kind == "generic":
        sp = split_sig(node.arg, e["name"])
        if sp is None:
            fails.append(("sig:generic-name", f"{where}: expected {e['name']}(...) got {node.arg!r}"))
            return
        inner = sp[1]
        toks = e["args"]
        if "(" in toks:
            if not match_tokens(inner, toks):
                fails.append(("sig:generic-args-grouped", f"{where}: expected tokens {toks!r} got {inner!r}"))
        elif inner != " ".join(toks):
            fails.append(("sig:generic-args", f"{where}: expected {' '.join(toks)!r} got {inner!r}"))
    elif e.get("unnamed"):
        return          # add_test without NAME: C02 demands an entry, nothing fixes how it is named
    else:
        if node.arg != e["sig"]:
            sub = "sig"
            sp = split_sig(node.arg, e["name"]) if e.get("name") else None
            if sp is None:
                sub = "sig-name"
            elif kind in ("function", "macro"):
                inner = sp[1].split(" ") if sp[1] else []
                if ("**kwargs" in inner) != bool(e.get("kwargs")) or inner.count("**kwargs") > 1:
                    sub = "sig-kwargs"
                else:
                    sub = "sig-params"
            fails.append((f"{sub}:{kind}", f"{where}: expected {e['sig']!r} got {node.arg!r}"))


def check_fields(e, node, fails, where):
    exp = e.get("fields") or []
    act = node.fields
    if e.get("kind") == "set" and exp and exp[0][1] is None:
        # UNSET: nothing to show as default; only the type is constrained
        exp = exp[1:]
        act = [f for f in act if f[0] != "Default value"]
    if any(isinstance(v, str) and "\n" in v for _, v in exp):
        # a value with a line break cannot be one field line: compare the first line of the default only
        exp = [(n, v.split("\n")[0]) for n, v in exp if n == "Default value"]
    expd = dict(exp)
    actd = dict(act)        # a later field wins: generated fields follow the doc text
    for n, v in exp:
        if n not in actd:
            fails.append((f"field-missing:{e.get('kind')}:{n}", f"{where}: field {n!r} missing, got {act!r}"))
        elif n == "Help text":
            if v not in actd[n] and v.strip('"') not in actd[n]:
                fails.append((f"field-value:{e.get('kind')}:{n}", f"{where}: {n}: expected to contain {v!r} got {actd[n]!r}"))
        elif actd[n] != v:
            fails.append((f"field-value:{e.get('kind')}:{n}", f"{where}: {n}: expected {v!r} got {actd[n]!r}"))


def method_sig(m):
    return f"{m['name']}({', '.join(m['params'])}" + ("[, ...]" if m.get("variadic") else "") + ")"


def check_method(m, node, fails, where):
    if node.name != "py:method":
        fails.append(("member-dir", f"{where}: expected py:method got {node.name}"))
        return
    sp = split_sig(node.arg, m["name"])
    if sp is None:
        fails.append(("method-name", f"{where}: expected {m['name']}(...) got {node.arg!r}"))
        return
    inner = sp[1]
    # '[, ...]' rendering of variadic members is not constrained by the property
    inner_core = inner[:-len("[, ...]")] if inner.endswith("[, ...]") else inner
    if inner_core != ", ".join(m["params"]):
        fails.append(("method-params", f"{where}: expected params {m['params']!r} got {inner!r}"))
    check_adm(m, node, fails, where)
    check_doc(m, node, fails, where)
    # :type p: T pairs, position-wise (parameter names may coincide after stripping: compare as lists)
    doc_set = set(m.get("doc") or [])
    actd, expd = {}, {}
    for n, v in node.fields:
        if n.startswith("type ") and f":{n}: {v}" not in doc_set:
            actd.setdefault(n, []).append(v)
    for n, v in m["fields"]:
        if n.startswith("type "):
            expd.setdefault(n, []).append(v)
    for n in expd:
        if actd.get(n) != expd[n]:
            fails.append(("method-type-pair", f"{where}: expected :{n}: {expd[n]!r}, got {actd.get(n)!r}"))
    for n in actd:
        if n not in expd:
            fails.append(("method-type-extra", f"{where}: unexpected field :{n}: {actd[n]!r}"))


def check_attr(a, node, fails, where):
    if node.name != "py:attribute":
        fails.append(("member-dir", f"{where}: expected py:attribute got {node.name}"))
        return
    if node.arg != a["name"]:
        fails.append(("attr-name", f"{where}: expected {a['name']!r} got {node.arg!r}"))
    vals = [v for n, v in node.options if n == "value"]
    if a.get("value") is None:
        if vals:
            fails.append(("attr-value-unexpected", f"{where}: value shown {vals!r} but none given"))
    elif vals != [a["value"]]:
        fails.append(("attr-value", f"{where}: expected value {a['value']!r} got {vals!r}"))
    check_doc(a, node, fails, where)


def check_class(e, node, fails, where):
    if node.arg != e["name"]:
        fails.append(("class-name", f"{where}: expected {e['name']!r} got {node.arg!r}"))
    kids = node.entries()
    exp_kids = [("ctor", m) for m in e["ctors"]] + [("method", m) for m in e["methods"]] + [("attr", a) for a in e["attrs"]]
    # members: exactly these, each once, grouped by kind in source order
    act_methods = [k for k in kids if k.name == "py:method"]
    act_attrs = [k for k in kids if k.name == "py:attribute"]
    other = [k for k in kids if k.name not in ("py:method", "py:attribute")]
    if other:
        fails.append(("class-foreign-child", f"{where}: unexpected child directives {[k.name for k in other]}"))
    exp_methods = e["ctors"] + e["methods"]
    if [k.arg.split("(")[0] for k in act_methods] != [m["name"] for m in exp_methods]:
        fails.append(("class-members", f"{where}: expected methods {[m['name'] for m in exp_methods]} "
                                       f"got {[k.arg for k in act_methods]}"))
    else:
        for m, k in zip(exp_methods, act_methods):
            check_method(m, k, fails, f"{where}/{m['name']}")
    if [k.arg for k in act_attrs] != [a["name"] for a in e["attrs"]]:
        fails.append(("class-attrs", f"{where}: expected attributes {[a['name'] for a in e['attrs']]} "
                                     f"got {[k.arg for k in act_attrs]}"))
    else:
        for a, k in zip(e["attrs"], act_attrs):
            check_attr(a, k, fails, f"{where}/{a['name']}")
    # text: bases line, doc, group labels, inner-class list
    text = nb(node.doc_lines())
    rest = list(text)
    if e["bases"]:
        if not rest or not rest[0].startswith("Bases:"):
            fails.append(("class-bases", f"{where}: bases line missing, text {text!r}"))
        else:
            got = re.findall(r":class:`([^`]*)`", rest[0])
            if got != e["bases"]:
                fails.append(("class-bases", f"{where}: expected bases {e['bases']!r} got {got!r}"))
            rest = rest[1:]
    elif rest and rest[0].startswith("Bases:"):
        fails.append(("class-bases", f"{where}: bases shown but none declared"))
        rest = rest[1:]
    labels = [l for l in rest if l.startswith("**") and l.endswith("**")]
    inner_lines = [l for l in rest if l.startswith("* ")]
    docl = [l for l in rest if l not in labels and l not in inner_lines]
    if docl != nb(e["doc"]):
        fails.append(("doc:class", f"{where}: doc lines expected {nb(e['doc'])!r} got {docl!r}"))
    got_inner = [x for l in inner_lines for x in re.findall(r":class:`([^`]*)`", l)]
    if got_inner != e["inner"]:
        fails.append(("class-inner", f"{where}: expected inner classes {e['inner']!r} got {got_inner!r}"))
    want_labels = []
    if e["ctors"]:
        want_labels.append("constructor")
    if e["methods"]:
        want_labels.append("method")
    if e["attrs"]:
        want_labels.append("attribute")
    if e["inner"]:
        want_labels.append("inner")
    got_labels = [l.lower() for l in labels]
    if len(got_labels) != len(want_labels) or any(w not in g for w, g in zip(want_labels, got_labels)):
        fails.append(("class-labels", f"{where}: expected group labels {want_labels} got {labels}"))
    # group order in the rendering: each member directive sits after its group label
    seq = [("label", x[1]) if x[0] == "text" and x[1].startswith("**") else ("dir", x[1].name)
           for x in node.items if (x[0] == "text" and x[1].startswith("**")) or (x[0] == "dir" and x[1].name.startswith("py:"))]
    cur = None
    for kind, v in seq:
        if kind == "label":
            cur = v.lower()
        else:
            need = "attribute" if v == "py:attribute" else None
            if need and (cur is None or need not in cur):
                fails.append(("class-grouping", f"{where}: {v} outside its group (under {cur!r})"))
            if v == "py:method" and (cur is None or ("method" not in cur and "constructor" not in cur)):
                fails.append(("class-grouping", f"{where}: {v} outside its group (under {cur!r})"))


def check_entry(e, node, fails, idx):
    where = f"entry[{idx}] {e['dir']} {e.get('name')!r}"
    if node.name != e["dir"]:
        fails.append((f"dir:{e.get('kind')}", f"{where}: expected directive {e['dir']} got {node.name}"))
        return
    if e["dir"] == "py:class":
        check_class(e, node, fails, where)
        return
    check_sig(e, node, fails, where)
    check_adm(e, node, fails, where)
    check_doc(e, node, fails, where)
    check_fields(e, node, fails, where)
    kids = node.entries()
    if kids:
        fails.append((f"nested-entry:{e.get('kind')}", f"{where}: unexpected nested directives {[k.name for k in kids]}"))


def node_key(node):
    return node.name, node.arg


def compare_entries(expected, page):
    """-> [(key, detail)] ; alignment by (directive, name) so that one missing/extra entry gives one bucket."""
    fails = []
    act = page.entries()
    exp = list(expected)

    def matches(e, n):
        if n.name != e["dir"]:
            return False
        nm = e.get("name") or ""
        if e.get("unnamed"):
            return any(a[0] == "warning" and "CTest" in (a[1] or "") for a in n.admonitions())
        if e["dir"] in ("data", "py:class"):
            return n.arg == nm
        return n.arg.lower().startswith(nm.lower() + "(")

    i = j = 0
    idx = 0
    while i < len(exp) and j < len(act):
        e, n = exp[i], act[j]
        if e.get("optional"):
            # left open by the properties: consume the entry if it is there, never complain
            if matches(e, n):
                j += 1
            i += 1
            continue
        if matches(e, n):
            check_entry(e, n, fails, idx)
            i += 1
            j += 1
        else:
            # is e further down in act (extra entries before it), or n further down in exp (missing entries)?
            ahead_act = next((jj for jj in range(j + 1, len(act)) if matches(e, act[jj])), None)
            ahead_exp = next((ii for ii in range(i + 1, len(exp)) if matches(exp[ii], n)), None)
            if ahead_exp is not None and all(exp[ii].get("optional") for ii in range(i, ahead_exp)):
                i = ahead_exp
                continue
            if ahead_exp is not None and (ahead_act is None or ahead_exp - i <= ahead_act - j):
                for ii in range(i, ahead_exp):
                    if exp[ii].get("optional"):
                        continue
                    fails.append((f"missing:{exp[ii].get('kind')}", f"entry for {ident_of(exp[ii])} missing (position {idx})"))
                i = ahead_exp
            elif ahead_act is not None:
                for jj in range(j, ahead_act):
                    fails.append((f"extra:{act[jj].name}", f"unexpected entry {node_key(act[jj])} at position {idx}"))
                j = ahead_act
            else:
                fails.append((f"mismatch:{e.get('kind')}", f"position {idx}: expected {ident_of(e)} got {node_key(n)}"))
                i += 1
                j += 1
        idx += 1
    for ii in range(i, len(exp)):
        if exp[ii].get("optional"):
            continue
        fails.append((f"missing:{exp[ii].get('kind')}", f"entry for {ident_of(exp[ii])} missing at end"))
    for jj in range(j, len(act)):
        fails.append((f"extra:{act[jj].name}", f"unexpected entry {node_key(act[jj])} at end"))
    return fails


def structure_checks(page, prefix=""):
    """Page-level structure shared by several properties: title frame present, one module directive first."""
    fails = []
    mods = page.module()
    if len(mods) != 1:
        fails.append((prefix + "module-count", f"{len(mods)} module directives"))
    elif page.top and page.top[0].name != "module":
        fails.append((prefix + "module-not-first", f"first directive is {page.top[0].name}"))
    if page.stray:
        fails.append((prefix + "stray-top-level", f"column-0 material outside directives: {page.stray[:3]!r}"))
    return fails
