"""Tokenizer written from cmake-language(7) (never imports cminx).

lex(text) -> Result with .commands [Command(name, args, start, end, legacy)] and .error (None or
LexError).  Arguments are returned as (kind, raw text) with kind in
{"unquoted", "quoted", "bracket", "(", ")"}; raw text is the source text as written.
`normalize(kind, raw)` gives the text CMake hands to the command (delimiters removed, quoted
continuations removed, first newline of a bracket argument dropped; escapes NOT evaluated).

Legacy unquoted arguments (embedded quotes, $(...)) are tolerated: the command is flagged
legacy=True and tokenised the way CMake's lexer does it (a quoted run glued to an unquoted
argument belongs to that argument).
"""
import re


class LexError(Exception):
    def __init__(self, kind, pos, msg=""):
        super().__init__(f"{kind} at offset {pos} {msg}")
        self.kind = kind
        self.pos = pos


class Command:
    __slots__ = ("name", "args", "start", "end", "legacy", "line", "spans", "open_paren")

    def __init__(self, name, start, line):
        self.name = name
        self.args = []
        self.start = start
        self.end = None
        self.legacy = False
        self.line = line
        self.spans = []          # (start, end) offsets of every entry of args
        self.open_paren = None

    def flat(self):
        return [raw for _, raw in self.args]

    def normalized(self):
        return [normalize(k, raw) for k, raw in self.args]


class Result:
    def __init__(self):
        self.commands = []
        self.error = None
        self.comments = []      # (start, end) spans of comments (line and bracket, doccomments included)


IDENT = re.compile(r"[A-Za-z_][A-Za-z0-9_]*")
BRACKET_OPEN = re.compile(r"\[(=*)\[")
SPACE = " \t"
NEWLINE = "\r\n"


def normalize(kind, raw):
    if kind == "quoted":
        inner = raw[1:-1]
        return re.sub(r"\\(\r\n|\n|\r)", "", inner)
    if kind == "bracket":
        m = BRACKET_OPEN.match(raw)
        n = len(m.group(1))
        inner = raw[m.end():len(raw) - (n + 2)]
        if inner.startswith("\r\n"):
            inner = inner[2:]
        elif inner.startswith("\n"):
            inner = inner[1:]
        return inner
    return raw


def _bracket_end(text, pos, n):
    """pos: first char after the opening bracket. Returns index after the closing bracket or -1."""
    close = "]" + "=" * n + "]"
    j = text.find(close, pos)
    return -1 if j < 0 else j + len(close)


def _escape_ok(ch):
    """char after a backslash: escape_identity (non-alphanumeric, not ';'), escape_encoded t n r, or ';'."""
    if ch in "tnr;":
        return True
    return not (ch.isascii() and ch.isalnum()) and ch not in "\r\n"


def lex(text, strict_escapes=True):
    res = Result()
    i, n = 0, len(text)
    line = 1

    def skip_comment(i):
        """text[i] == '#'. Returns index after the comment (line comments stop before the newline)."""
        m = BRACKET_OPEN.match(text, i + 1)
        if m:
            j = _bracket_end(text, m.end(), len(m.group(1)))
            if j < 0:
                raise LexError("unterminated-bracket-comment", i)
            return j
        j = i
        while j < n and text[j] not in NEWLINE:
            j += 1
        return j

    try:
        while i < n:
            c = text[i]
            if c in SPACE or c in NEWLINE:
                if c == "\n":
                    line += 1
                i += 1
                continue
            if c == "#":
                j = skip_comment(i)
                res.comments.append((i, j))
                line += text.count("\n", i, j)
                i = j
                continue
            m = IDENT.match(text, i)
            if not m:
                raise LexError("stray-text", i, repr(text[i:i + 20]))
            cmd = Command(m.group(0), i, line)
            i = m.end()
            while i < n and text[i] in SPACE:
                i += 1
            if i >= n or text[i] != "(":
                raise LexError("stray-text" if i < n else "missing-paren", cmd.start, f"after identifier {cmd.name!r}")
            cmd.open_paren = i
            i += 1
            depth = 1
            separated = True
            while True:
                if i >= n:
                    raise LexError("missing-close-paren", cmd.start, f"command {cmd.name!r}")
                c = text[i]
                if c in SPACE or c in NEWLINE:
                    if c == "\n":
                        line += 1
                    i += 1
                    separated = True
                    continue
                if c == "#":
                    j = skip_comment(i)
                    res.comments.append((i, j))
                    line += text.count("\n", i, j)
                    i = j
                    continue
                if c == "(":
                    cmd.args.append(("(", "("))
                    cmd.spans.append((i, i + 1))
                    depth += 1
                    i += 1
                    separated = True
                    continue
                if c == ")":
                    depth -= 1
                    i += 1
                    if depth == 0:
                        break
                    cmd.args.append((")", ")"))
                    cmd.spans.append((i - 1, i))
                    separated = False
                    continue
                if c == '"':
                    j = i + 1
                    while True:
                        if j >= n:
                            raise LexError("unterminated-string", i)
                        ch = text[j]
                        if ch == "\\":
                            if j + 1 >= n:
                                raise LexError("backslash-at-eof", j)
                            nx = text[j + 1]
                            if nx in "\r\n":
                                j += 3 if text[j + 1:j + 3] == "\r\n" else 2
                                continue
                            if strict_escapes and not _escape_ok(nx):
                                raise LexError("invalid-escape", j)
                            j += 2
                            continue
                        if ch == '"':
                            j += 1
                            break
                        j += 1
                    cmd.args.append(("quoted", text[i:j]))
                    cmd.spans.append((i, j))
                    line += text.count("\n", i, j)
                    i = j
                    # a quoted argument directly followed by more text is legacy / an error in CMake
                    if i < n and text[i] not in SPACE + NEWLINE + "()#":
                        cmd.legacy = True
                    separated = False
                    continue
                m = BRACKET_OPEN.match(text, i)
                if m:
                    j = _bracket_end(text, m.end(), len(m.group(1)))
                    if j < 0:
                        raise LexError("unterminated-bracket-argument", i)
                    cmd.args.append(("bracket", text[i:j]))
                    cmd.spans.append((i, j))
                    line += text.count("\n", i, j)
                    i = j
                    if i < n and text[i] not in SPACE + NEWLINE + "()#":
                        cmd.legacy = True
                    continue
                # unquoted argument (legacy tolerant)
                j = i
                while j < n:
                    ch = text[j]
                    if ch in SPACE or ch in NEWLINE or ch in "()#":
                        break
                    if ch == "\\":
                        if j + 1 >= n:
                            raise LexError("backslash-at-eof", j)
                        nx = text[j + 1]
                        if nx in "\r\n":
                            raise LexError("invalid-escape", j)
                        if strict_escapes and not _escape_ok(nx):
                            raise LexError("invalid-escape", j)
                        j += 2
                        continue
                    if ch == '"':
                        # legacy: a quoted run glued into an unquoted argument (a"b c"d).  CMake's lexer accepts it only
                        # when the run closes on the same line; otherwise the unquoted argument ends here and an
                        # ordinary quoted argument starts (CMake warns "not separated", it is not an error)
                        k = j + 1
                        while k < n and text[k] != '"' and text[k] not in "\r\n":
                            if text[k] == "\\" and k + 1 < n and text[k + 1] not in "\r\n":
                                k += 1
                            k += 1
                        if k >= n or text[k] != '"':
                            cmd.legacy = True
                            break
                        cmd.legacy = True
                        j = k + 1
                        continue
                    if ch == "$" and j + 1 < n and text[j + 1] == "(":
                        cmd.legacy = True
                        k = text.find(")", j)
                        if k < 0:
                            raise LexError("missing-close-paren", j)
                        j = k + 1
                        continue
                    j += 1
                if j == i:
                    raise LexError("stray-text", i, repr(text[i:i + 10]))
                cmd.args.append(("unquoted", text[i:j]))
                cmd.spans.append((i, j))
                i = j
                separated = False
            cmd.end = i
            res.commands.append(cmd)
            # after ')': only spaces, comments, then newline or EOF (CMake: "Expected a newline")
            while i < n and text[i] in SPACE:
                i += 1
            if i < n and text[i] == "#":
                # bracket comments may be followed by more
                while i < n and text[i] == "#":
                    j = skip_comment(i)
                    res.comments.append((i, j))
                    line += text.count("\n", i, j)
                    i = j
                    while i < n and text[i] in SPACE:
                        i += 1
            if i < n and text[i] not in NEWLINE:
                raise LexError("stray-text", i, "after ')' on the same line")
    except LexError as e:
        res.error = e
    return res
