"""Reference semantics: AST + settings -> expected entries (DESIGN.md 1.2).

Written from the property statements and docs/source/documenting/*.rst; never imports cminx.
Regular expressions are evaluated with Python's `re` (the regex engine is not under test).
"""
import re

FLAG_KINDS = ["function", "macro", "cpp_class", "cpp_attr", "cpp_constructor", "cpp_member",
              "ct_add_test", "ct_add_section", "add_test", "option"]


class MSettings:
    def __init__(self, flags=None, trigger=":keyword", strip_function="", strip_macro="", strip_member=""):
        self.flags = {k: True for k in FLAG_KINDS}
        if flags:
            self.flags.update(flags)
        self.trigger = trigger
        self.strip = {"function": strip_function, "macro": strip_macro, "member": strip_member}

    def to_json(self):
        return {"flags": self.flags, "trigger": self.trigger, "strip": self.strip}

    @staticmethod
    def from_json(d):
        s = MSettings(d.get("flags"), d.get("trigger", ":keyword"))
        s.strip.update(d.get("strip", {}))
        return s


def doc_lines(doc):
    return list(doc["lines"]) if doc else []


def doc_text(doc):
    return "\n".join(doc["lines"]) + "\n" if doc else ""


def flat_args(args):
    """Arguments as written, groups flattened with parentheses kept as tokens."""
    out = []
    for a in args:
        if isinstance(a, list):
            out.append("(")
            out += flat_args(a)
            out.append(")")
        else:
            out.append(a)
    return out


def own_parseargs(body):
    """cmake_parse_arguments in this very body, outside nested definitions (blocks are transparent)."""
    for it in body:
        if it["k"] == "parseargs":
            return True
        # if/foreach/while blocks and cpp_class blocks are not function or macro definitions: transparent
        if it["k"] in ("block", "class") and own_parseargs(it["body"]):
            return True
    return False


def unquote_one(v):
    """A single quoted value without its surrounding quotes."""
    if len(v) >= 2 and v[0] == '"' and v[-1] == '"':
        return v[1:-1]
    return v


class Entry(dict):
    """dir, sig, adm [(kind, class)], doc [lines], fields [(n, v)], marker, plus class-specific keys."""
    __getattr__ = dict.get


def expected(module, ms=None):
    """Ordered top-level entries (module directive excluded)."""
    ms = ms or MSettings()
    out = []
    _walk(module["items"], ms, out, [])
    return out


def _shown(ms, kind, doc):
    return doc is not None or ms.flags[kind]


def _method(it, ms):
    impl = it["impl"]
    params = [re.sub(ms.strip["member"], "", p) for p in impl["params"]]
    types = it["types"]
    fields = []
    dt = doc_text(it["doc"])
    for i in range(min(len(types), len(params))):
        if f":param {params[i]}:" not in dt:
            fields.append((f"param {params[i]}", ""))
        if f":type {params[i]}:" not in dt:
            fields.append((f"type {params[i]}", types[i]))
    return Entry(dir="py:method", name=it["name"], params=params, variadic="args" in types,
                 adm=[("note", "macro")] if impl["cmd"] == "macro" else [], doc=doc_lines(it["doc"]),
                 fields=fields, marker=(it["doc"] or {}).get("marker"), ctor=it["ctor"], types=types)


def _walk(items, ms, out, class_stack):
    """class_stack: list of Entry (shown class) or None (hidden class)."""
    for it in items:
        k = it["k"]
        doc = it.get("doc")
        marker = (doc or {}).get("marker")
        if k == "func":
            if _shown(ms, it["cmd"], doc):
                params = [re.sub(ms.strip[it["cmd"]], "", p) for p in it["params"]]
                kw = (doc is not None and ms.trigger in doc_text(doc)) or own_parseargs(it["body"])
                out.append(Entry(dir="function", kind=it["cmd"], name=it["name"], params=params, kwargs=kw,
                                 sig=f"{it['name']}({' '.join(params + (['**kwargs'] if kw else []))})",
                                 adm=[("note", "macro")] if it["cmd"] == "macro" else [],
                                 doc=doc_lines(doc), fields=[], marker=marker))
            _walk(it["body"], ms, out, class_stack)
        elif k == "set":
            if doc is not None:
                vals = it["values"]
                if len(vals) == 0:
                    typ, dv = "UNSET", None
                elif len(vals) == 1:
                    typ, dv = "str", unquote_one(vals[0])
                else:
                    typ, dv = "list", " ".join(vals)
                out.append(Entry(dir="data", kind="set", name=it["name"], sig=it["name"], adm=[], doc=doc_lines(doc),
                                 fields=[("Default value", dv), ("type", typ)], marker=marker))
        elif k == "option":
            if _shown(ms, "option", doc):
                out.append(Entry(dir="data", kind="option", name=it["name"], sig=it["name"], adm=[("note", "option")],
                                 doc=doc_lines(doc),
                                 fields=[("Help text", it["help"]),
                                         ("Default value", it["default"] if it["default"] is not None else "OFF"),
                                         ("type", "bool")], marker=marker))
        elif k in ("generic", "block"):
            cmd = it["cmd"] if k == "generic" else it["open"]
            if doc is not None:
                out.append(Entry(dir="function", kind="generic", name=cmd, args=flat_args(it["args"]),
                                 adm=[("warning", "generic")], doc=doc_lines(doc), fields=[], marker=marker))
            if k == "block":
                _walk(it["body"], ms, out, class_stack)
        elif k == "parseargs":
            pass
        elif k == "class":
            if _shown(ms, "cpp_class", doc):
                e = Entry(dir="py:class", kind="class", name=it["name"], sig=it["name"], bases=list(it["bases"]), adm=[],
                          doc=doc_lines(doc), fields=[], marker=marker, ctors=[], methods=[], attrs=[], inner=[])
                if class_stack and class_stack[-1] is not None:
                    class_stack[-1]["inner"].append(it["name"])
                out.append(e)
                class_stack.append(e)
            else:
                class_stack.append(None)
            _walk(it["body"], ms, out, class_stack)
            class_stack.pop()
        elif k == "attr":
            cls = class_stack[-1] if class_stack else None
            if cls is not None and _shown(ms, "cpp_attr", doc):
                cls["attrs"].append(Entry(dir="py:attribute", name=it["name"], sig=it["name"],
                                          value=it["extra"][0] if it["extra"] else None, adm=[], doc=doc_lines(doc),
                                          fields=[], marker=marker))
        elif k == "member":
            cls = class_stack[-1] if class_stack else None
            kind = "cpp_constructor" if it["ctor"] else "cpp_member"
            if cls is not None and _shown(ms, kind, doc):
                (cls["ctors"] if it["ctor"] else cls["methods"]).append(_method(it, ms))
                claimed = True
            else:
                claimed = False
            _impl(it, ms, out, class_stack, claimed)
        elif k in ("test", "section"):
            kind = "ct_add_test" if k == "test" else "ct_add_section"
            if _shown(ms, kind, doc):
                ef = "EXPECTFAIL" in it["pre"] + it["post"]
                out.append(Entry(dir="function", kind=k, name=it["name"], sig=f"{it['name']}({'EXPECTFAIL' if ef else ''})",
                                 adm=[("warning", k)], doc=doc_lines(doc), fields=[], marker=marker))
                claimed = True
            else:
                claimed = False
            _impl(it, ms, out, class_stack, claimed)
        elif k == "addtest":
            if _shown(ms, "add_test", doc) and it.get("noname"):
                out.append(Entry(dir="function", kind="addtest", name="", sig=None, unnamed=True, adm=[("warning", "ctest")],
                                 doc=doc_lines(doc), fields=[], marker=marker))
            elif _shown(ms, "add_test", doc):
                rest = it["pre"] + it["post"]
                out.append(Entry(dir="function", kind="addtest", name=it["name"], sig=f"{it['name']}({' '.join(rest)})",
                                 adm=[("warning", "ctest")], doc=doc_lines(doc), fields=[], marker=marker))
        elif k == "dangling":
            pass
        else:
            raise ValueError(k)


def _impl(it, ms, out, class_stack, claimed):
    """The definition implementing a member/test declaration: no entry of its own when claimed.
    Two cases are left open by the properties and marked 'optional' (never asserted either way): a hidden
    declaration turns the definition into an ordinary undocumented one; a definition carrying a doccomment
    of its own (CMinx documents it as a function besides claiming it)."""
    impl = it["impl"]
    name = "${" + re.sub(r"[^A-Za-z0-9_]", "_", it["name"].strip('"${}[]=')) + "}"
    if impl.get("doc") is not None:
        out.append(Entry(dir="function", kind="documented-impl", optional=True, name=name, adm=[], doc=[], fields=[],
                         marker=impl["doc"].get("marker")))
    elif not claimed and ms.flags[impl["cmd"]]:
        out.append(Entry(dir="function", kind="unclaimed-impl", optional=True, name=name, adm=[], doc=[], fields=[]))
    _walk(impl["body"], ms, out, class_stack)


ADM_TEXT = {
    ("note", "macro"): "macro",
    ("note", "option"): "user-editable option",
    ("warning", "generic"): "generic command invocation",
    ("warning", "test"): "CMakeTest test definition",
    ("warning", "section"): "CMakeTest section definition",
    ("warning", "ctest"): "CTest test definition",
}
