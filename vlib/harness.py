"""Campaign runner: Hypothesis in collect mode, bucketing, shrinking, shards, evidence.

A property module (props/Cxx.py) provides

    ID, LEVEL, RULE, ASSUMPTIONS, BUDGET = {"quick": {...}, "thorough": {...}}
    strategy(tier)      -> Hypothesis strategy producing a JSON-serialisable case
    evaluate(case)      -> Result   (pure function of the case and the tree under test)
    KNOWN               -> optional {finding id: {"region": case->bool, "keys": [glob,...]}}
    extra(ctx)          -> optional non-Hypothesis campaign run once in the parent process

Exit codes: 0 held, 1 violation(s) (one VIOLATION line per bucket), 2 harness error.
"""
import fnmatch
import hashlib
import json
import os
import subprocess
import sys
import time
import traceback
from collections import Counter

from . import VERIF

OUT = os.environ.get("VERIF_OUT", VERIF)     # evidence/ and replays/ go here (selftest redirects them)


class HarnessError(Exception):
    """The harness, generator or a reference oracle is wrong; never a violation."""


class Result:
    __slots__ = ("failures", "labels", "nontrivial", "sample", "trivial_reason", "extra_evaluations", "extra_nontrivial")

    def __init__(self, failures=None, labels=None, nontrivial=False, sample=None):
        self.failures = list(failures or [])      # [(bucket key, detail)]
        self.labels = list(labels or [])
        self.nontrivial = bool(nontrivial)
        self.sample = sample
        self.extra_evaluations = 0        # sub-cases evaluated inside this case (e.g. enumerated mutants)
        self.extra_nontrivial = []        # digests of the non-trivial ones among them

    def fail(self, key, detail=""):
        self.failures.append((key, str(detail)[:2000]))


def digest(case):
    return hashlib.sha1(json.dumps(case, sort_keys=True, ensure_ascii=True).encode()).hexdigest()


def case_size(case):
    return len(json.dumps(case, sort_keys=True))


def base_seed():
    try:
        return int(os.environ.get("VERIF_SEED", "1"))
    except ValueError:
        return 1


def safe_evaluate(mod, case):
    """mod.evaluate(case); an exception that escapes the check AND was raised inside the code under test (a frame of the
    cminx package, or of the repository's cmake/ directory) is a finding about that code, anything else a harness error."""
    try:
        return mod.evaluate(case)
    except HarnessError:
        raise
    except Exception as e:  # noqa
        tb = traceback.extract_tb(e.__traceback__)
        inner = [fr for fr in tb if "/cminx/" in fr.filename and "/verif/" not in fr.filename]
        if not inner:
            raise
        fr = inner[-1]
        res = Result()
        res.fail(f"exception-escaped-the-check:{type(e).__name__}:{fr.filename.split('/cminx/')[-1]}:{fr.name}", repr(e)[:300])
        return res


def derived_seed(prop_id, shard):
    return base_seed() * 1000003 + int(prop_id[1:]) * 1009 + shard


# ------------------------------------------------------------------ known findings

def load_known(prop_id):
    """finding: lines of known_findings.txt for this property -> list of dicts."""
    out = []
    path = os.path.join(VERIF, "known_findings.txt")
    if not os.path.exists(path):
        return out
    for line in open(path, encoding="utf-8"):
        line = line.strip()
        if not line.startswith("finding:"):
            continue
        fields = {}
        rest = []
        for tok in line[len("finding:"):].split():
            if "=" in tok and not rest and tok.split("=", 1)[0] in ("property", "id", "repro"):
                k, v = tok.split("=", 1)
                fields[k] = v
            else:
                rest.append(tok)
        fields["text"] = " ".join(rest)
        if fields.get("property") == prop_id:
            out.append(fields)
    return out


class Collector:
    """Accumulates what one process explored."""

    def __init__(self, mod, tier, shard=0):
        self.mod = mod
        self.tier = tier
        self.shard = shard
        self.evaluations = 0
        self.nontrivial = set()
        self.labels = Counter()
        self.samples = []
        self.buckets = {}        # key -> {"count", "case", "detail", "size"}
        self.known_hits = Counter()
        self.notes = {}
        self.known = load_known(mod.ID)
        self.known_defs = getattr(mod, "KNOWN", {})

    def is_known(self, key, case):
        for f in self.known:
            d = self.known_defs.get(f.get("id"))
            if not d:
                continue
            if any(fnmatch.fnmatchcase(key, g) for g in d["keys"]):
                try:
                    if d["region"](case):
                        return f.get("id")
                except Exception:
                    pass
        return None

    def record(self, case, res):
        self.evaluations += 1 + res.extra_evaluations
        self.nontrivial.update(res.extra_nontrivial)
        for lab in res.labels:
            self.labels[lab] += 1
        if res.nontrivial:
            dg = digest(case)
            if dg not in self.nontrivial:
                self.nontrivial.add(dg)
                if len(self.samples) < 4 and res.sample is not None:
                    self.samples.append(res.sample)
        elif not self.samples and res.sample is not None and self.evaluations > 20:
            pass
        unknown = []
        for key, detail in res.failures:
            kid = self.is_known(key, case)
            if kid:
                self.known_hits[kid] += 1
                continue
            unknown.append(key)
            b = self.buckets.get(key)
            sz = case_size(case)
            if b is None:
                self.buckets[key] = {"count": 1, "case": case, "detail": detail, "size": sz}
            else:
                b["count"] += 1
                if sz < b["size"]:
                    b.update(case=case, detail=detail, size=sz)
        return unknown

    def note(self, key, value):
        self.notes[key] = value

    def dump(self):
        return {
            "evaluations": self.evaluations,
            "nontrivial": sorted(self.nontrivial),
            "labels": dict(self.labels),
            "samples": self.samples,
            "buckets": self.buckets,
            "known_hits": dict(self.known_hits),
            "notes": self.notes,
        }


def _settings(examples, shrink=False):
    from hypothesis import settings, HealthCheck, Phase
    phases = [Phase.generate, Phase.shrink] if shrink else [Phase.generate]
    return settings(max_examples=examples, deadline=None, database=None, derandomize=False,
                    report_multiple_bugs=False, phases=phases,
                    suppress_health_check=[HealthCheck.too_slow, HealthCheck.data_too_large,
                                           HealthCheck.large_base_example],
                    print_blob=False)


def run_campaign(mod, tier, shard, examples, col):
    """One Hypothesis campaign in collect mode, then per-bucket shrinking."""
    import hypothesis
    from hypothesis import given

    seed = derived_seed(mod.ID, shard)
    strat = mod.strategy(tier)

    @hypothesis.seed(seed)
    @_settings(examples)
    @given(strat)
    def campaign(case):
        col.record(case, safe_evaluate(mod, case))

    campaign()

    # shrink every bucket with Hypothesis' own shrinker: same seed, same strategy, the bucket
    # key as the only failing condition
    max_buckets = 4 if tier == "quick" else 8
    for key in sorted(col.buckets, key=lambda k: -col.buckets[k]["count"])[:max_buckets]:
        holder = _shrink_bucket(mod, col, strat, seed, examples, key)
        if "case" in holder and case_size(holder["case"]) <= col.buckets[key]["size"]:
            col.buckets[key].update(case=holder["case"], detail=holder["detail"],
                                    size=case_size(holder["case"]), shrunk=True)


class _Found(Exception):
    pass


def _shrink_bucket(mod, col, strat, seed, examples, key):
    """Re-find the bucket with the same seed and let Hypothesis shrink it, under a time budget:
    once the budget is spent every further candidate counts as passing, so the shrinker stops; the
    smallest failing case seen so far is kept."""
    import hypothesis
    from hypothesis import given
    holder = {}
    budget = 15.0 if col.tier == "quick" else 90.0
    t_end = [None]

    @hypothesis.seed(seed)
    @_settings(examples, shrink=True)
    @given(strat)
    def hunt(case):
        if t_end[0] is not None and time.time() > t_end[0]:
            return
        res = safe_evaluate(mod, case)
        for k, detail in res.failures:
            if k == key and not col.is_known(k, case):
                if t_end[0] is None:
                    t_end[0] = time.time() + budget
                sz = case_size(case)
                if "case" not in holder or sz <= holder["size"]:
                    holder.update(case=case, detail=detail, size=sz)
                raise _Found()

    try:
        hunt()
    except _Found:
        pass
    except Exception as e:  # Flaky after the budget ran out, unsatisfiable, ...: keep what we have
        if "case" not in holder:
            sys.stderr.write(f"shrink pass for {key} failed: {type(e).__name__}: {str(e)[:300]}\n")
    return holder


# ------------------------------------------------------------------ parent process

def merge(parts):
    total = {"evaluations": 0, "nontrivial": set(), "labels": Counter(), "samples": [],
             "buckets": {}, "known_hits": Counter(), "notes": {}}
    for p in parts:
        total["evaluations"] += p["evaluations"]
        total["nontrivial"].update(p["nontrivial"])
        total["labels"].update(p["labels"])
        for s in p["samples"]:
            if len(total["samples"]) < 5:
                total["samples"].append(s)
        for k, b in p["buckets"].items():
            t = total["buckets"].get(k)
            if t is None:
                total["buckets"][k] = dict(b)
            else:
                t["count"] += b["count"]
                if b["size"] < t["size"]:
                    cnt = t["count"]
                    t.update(b)
                    t["count"] = cnt
        total["known_hits"].update(p["known_hits"])
        for k, v in p["notes"].items():
            if isinstance(v, (int, float)) and isinstance(total["notes"].get(k), (int, float)):
                total["notes"][k] += v
            elif isinstance(v, dict) and isinstance(total["notes"].get(k), dict):
                for kk, vv in v.items():
                    total["notes"][k][kk] = total["notes"][k].get(kk, 0) + vv
            else:
                total["notes"][k] = v
    return total


def write_replay(mod, key, bucket):
    d = os.path.join(OUT, "replays", mod.ID)
    os.makedirs(d, exist_ok=True)
    payload = {"property": mod.ID, "key": key, "detail": bucket.get("detail", ""),
               "shrunk": bool(bucket.get("shrunk")), "case": bucket["case"]}
    if hasattr(mod, "describe"):
        try:
            payload["rendered"] = mod.describe(bucket["case"])
        except Exception:
            pass
    name = hashlib.sha1((key + json.dumps(bucket["case"], sort_keys=True)).encode()).hexdigest()[:16]
    path = os.path.join(d, name + ".json")
    with open(path, "w", encoding="utf-8") as f:
        json.dump(payload, f, indent=1, ensure_ascii=False, sort_keys=True)
    return os.path.relpath(path, VERIF) if OUT == VERIF else path


def replay_file(mod, path, col=None):
    payload = json.load(open(path, encoding="utf-8"))
    case = payload["case"] if "case" in payload else payload
    res = safe_evaluate(mod, case)
    return case, res


def write_evidence(mod, tier, total, wall, violations, extra_cov=None):
    cov = {
        "evaluations": int(total["evaluations"]),
        "distinct_nontrivial": len(total["nontrivial"]),
        "rule": mod.RULE + ((" Added later: " + mod.RULE_MORE) if getattr(mod, "RULE_MORE", None) else ""),
        "samples": total["samples"][:5] or ["(no non-trivial sample recorded)"],
        "classes": dict(sorted(total["labels"].items())),
        "known_finding_hits": dict(total["known_hits"]),
        "failure_buckets": {k: b["count"] for k, b in total["buckets"].items()},
    }
    cov.update(total.get("notes", {}))
    if extra_cov:
        cov.update(extra_cov)
    ev = {
        "property_id": mod.ID,
        "tier": tier,
        "seed": base_seed(),
        "level": mod.LEVEL,
        "coverage": cov,
        "assumptions": list(getattr(mod, "ASSUMPTIONS", [])),
        "wall_s": round(wall, 2),
        "violations": violations,
    }
    d = os.path.join(OUT, "evidence")
    os.makedirs(d, exist_ok=True)
    tmp = os.path.join(d, mod.ID + ".json.tmp")
    with open(tmp, "w", encoding="utf-8") as f:
        json.dump(ev, f, indent=1, ensure_ascii=False)
    os.replace(tmp, os.path.join(d, mod.ID + ".json"))


def shard_main(mod, tier, shard, examples, out):
    col = Collector(mod, tier, shard)
    run_campaign(mod, tier, shard, examples, col)
    with open(out, "w") as f:
        json.dump(col.dump(), f)


def main(mod, argv):
    import argparse
    ap = argparse.ArgumentParser()
    ap.add_argument("--tier", default=os.environ.get("VERIF_TIER", "quick"), choices=["quick", "thorough"])
    ap.add_argument("--replay")
    ap.add_argument("--shard", type=int)
    ap.add_argument("--examples", type=int)
    ap.add_argument("--out")
    args = ap.parse_args(argv)
    t0 = time.time()

    if args.replay:
        col = Collector(mod, args.tier)
        case, res = replay_file(mod, args.replay)
        bad = col.record(case, res)
        for key, detail in res.failures:
            print(f"  failure key={key}: {detail}")
        if bad:
            print(f"VIOLATION property={mod.ID} replay={args.replay}")
            return 1
        print(f"replay ok: property={mod.ID} {args.replay}")
        return 0

    budget = mod.BUDGET[args.tier]
    if args.shard is not None:
        shard_main(mod, args.tier, args.shard, args.examples or budget["examples"], args.out)
        return 0

    parts = []
    # 1. regression tier: pinned replays and known-finding reproducers
    col = Collector(mod, args.tier)
    pinned_dir = os.path.join(VERIF, "replays", "pinned", mod.ID)
    known_lines = []
    n_pinned = 0
    if os.path.isdir(pinned_dir):
        for name in sorted(os.listdir(pinned_dir)):
            if not name.endswith(".json"):
                continue
            path = os.path.join(pinned_dir, name)
            case, res = replay_file(mod, path)
            n_pinned += 1
            before = dict(col.known_hits)
            col.record(case, res)
            for f in col.known:
                if f.get("repro") and os.path.basename(f["repro"]) == name:
                    if col.known_hits.get(f["id"], 0) > before.get(f["id"], 0):
                        known_lines.append(f"KNOWN-FINDING: property={mod.ID} id={f['id']} {f['text']}")
    col.note("pinned_replays", n_pinned)
    # 2. optional non-Hypothesis campaign
    if hasattr(mod, "extra"):
        mod.extra(Ctx(mod, args.tier, col))
    parts.append(col.dump())

    # 3. Hypothesis shards
    nshards = budget.get("shards", 1)
    examples = budget["examples"]
    if nshards <= 1:
        c2 = Collector(mod, args.tier, 0)
        run_campaign(mod, args.tier, 0, examples, c2)
        parts.append(c2.dump())
    else:
        import tempfile
        tmpd = tempfile.mkdtemp(prefix="cminx-verif-shards-", dir="/dev/shm" if os.path.isdir("/dev/shm") else None)
        procs = []
        env = dict(os.environ, PYTHONHASHSEED="0")
        for i in range(nshards):
            out = os.path.join(tmpd, f"{i}.json")
            cmd = [sys.executable, os.path.join(VERIF, "run_check.py"), mod.ID, "--tier", args.tier,
                   "--shard", str(i), "--examples", str(examples), "--out", out]
            procs.append((i, out, subprocess.Popen(cmd, env=env, cwd=VERIF, stdout=subprocess.PIPE,
                                                   stderr=subprocess.STDOUT)))
        failed = False
        for i, out, p in procs:
            txt, _ = p.communicate()
            if p.returncode != 0 or not os.path.exists(out):
                failed = True
                sys.stderr.write(f"shard {i} failed (exit {p.returncode}):\n{txt.decode(errors='replace')[-4000:]}\n")
            else:
                parts.append(json.load(open(out)))
        import shutil
        shutil.rmtree(tmpd, ignore_errors=True)
        if failed:
            print(f"HARNESS-ERROR property={mod.ID}: a shard failed")
            return 2

    total = merge(parts)
    lines = []
    # generator-soundness / reference-oracle problems (keys HARNESS:*) are never violations: they are counted,
    # written as replays for inspection, and above 0.5% of the evaluations the run is a harness error (exit 2)
    harness_hits = {k: b for k, b in total["buckets"].items() if k.startswith("HARNESS:")}
    for k in harness_hits:
        del total["buckets"][k]
    n_h = sum(b["count"] for b in harness_hits.values())
    total["notes"]["generator_soundness_failures"] = {k: b["count"] for k, b in harness_hits.items()}
    harness_bad = n_h > 0 and n_h > 0.005 * max(1, total["evaluations"])
    for k, b in harness_hits.items():
        path = write_replay(mod, k, b)
        print(f"HARNESS-NOTE property={mod.ID} key={k} count={b['count']} replay={path} :: {b['detail'][:200]}")
    for key in sorted(total["buckets"]):
        b = total["buckets"][key]
        path = write_replay(mod, key, b)
        lines.append(f"VIOLATION property={mod.ID} replay={path} key={key} count={b['count']} :: {b['detail'][:300]}")
    wall = time.time() - t0
    write_evidence(mod, args.tier, total, wall, len(lines))
    for l in known_lines:
        print(l)
    for l in lines:
        print(l)
    print(f"{mod.ID} {args.tier}: evaluations={total['evaluations']} distinct_nontrivial={len(total['nontrivial'])} "
          f"violating_buckets={len(lines)} known_hits={dict(total['known_hits'])} wall={wall:.1f}s")
    if harness_bad:
        print(f"HARNESS-ERROR property={mod.ID}: {n_h} generator-soundness failures in {total['evaluations']} evaluations")
        return 2
    return 1 if lines else 0


class Ctx:
    def __init__(self, mod, tier, col):
        self.mod = mod
        self.tier = tier
        self.col = col
        self.seed = base_seed()

    def record(self, case, res):
        return self.col.record(case, res)

    def note(self, k, v):
        self.col.note(k, v)


def entry(mod_name, argv):
    import importlib
    try:
        mod = importlib.import_module("props." + mod_name)
        return main(mod, argv)
    except HarnessError as e:
        traceback.print_exc()
        print(f"HARNESS-ERROR property={mod_name}: {e}")
        return 2
    except Exception as e:  # anything unexpected in our own code is a harness problem, not a violation
        traceback.print_exc()
        print(f"HARNESS-ERROR property={mod_name}: {type(e).__name__}: {e}")
        return 2
