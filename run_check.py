#!/venv/bin/python
"""Single entry point: run_check.py <ID> [--tier quick|thorough] [--replay FILE]."""
import os
import sys

HERE = os.path.dirname(os.path.abspath(__file__))

if __name__ == "__main__":
    if len(sys.argv) < 2:
        print("usage: run_check.py <ID> [--tier quick|thorough] [--replay FILE]")
        sys.exit(2)
    if os.environ.get("PYTHONHASHSEED") != "0":
        # hash randomisation must not enter any run: restart with a fixed hash seed
        env = dict(os.environ, PYTHONHASHSEED="0", LC_ALL="C.UTF-8", PYTHONDONTWRITEBYTECODE="1")
        os.execve(sys.executable, [sys.executable, os.path.abspath(__file__)] + sys.argv[1:], env)
    os.chdir(HERE)
    sys.path.insert(0, HERE)
    import vlib
    vlib.use_repo_source()
    from vlib import harness
    sys.exit(harness.entry(sys.argv[1], sys.argv[2:]))
