#!/bin/bash
# usage: r5done.sh C20 [round]   -> confirm both seeds of /tmp/seed/C20r5, run the property's quick check on each, drop the worktree
id=$1; r=${2:-5}
cd /verif
for k in 1 2; do
  d=/tmp/seed/${id}r$r/SEED/$k
  if [ -f $d/patch.diff ]; then
    /venv/bin/python seedtest.py confirm $d $id ${id}_r${r}seed$k 2>&1 | grep -E '"confirmed"|stored|error|tests_with|demo_exit' | tr '\n' ' '; echo
    [ -d seeded/${id}_r${r}seed$k ] && /venv/bin/python seedtest.py run ${id}_r${r}seed$k 2>&1 | tail -1 | cut -c1-400
  else echo "missing $d"; fi
done
