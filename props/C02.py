"""C02 Exactly one entry per documentable command, in source order (default settings)."""
from hypothesis import strategies as st

from vlib import gen_cmake as G, render as R, model as M, rstview as V, compare as C
from vlib.cminx_run import document_text, real_settings
from vlib.harness import Result
from .common import exc_key, kinds_present, short

ID = "C02"
LEVEL = "exploration"
RULE = ("module ASTs (all item kinds, nesting <=3, each item independently documented, dangling doccomments, "
        "annotation comments from the layout pool incl. code-like and delimiter-like text, per-occurrence command "
        "casing) rendered with a drawn layout; oracle = reference model (vlib/model.py) vs indentation view of the "
        "page: same entry sequence, kinds, signatures, admonitions, docs, members; comment/undocumented/dangling "
        "markers absent. Non-trivial: >=4 items, >=1 nesting construct, documented and undocumented items both "
        "present, and one of {dangling doc, definition right after a test/member implementation, undocumented set, "
        "option in a body}; distinct by SHA-1 of (AST, layout)")
RULE_MORE = "command names that collide with the aggregator's `process_<name>` dispatch are read from the tree under test and lead the command pool; 6 (thorough 40) modules of 125..450 top-level items per run."
ASSUMPTIONS = ["member/test declarations are directly followed by their undocumented implementing definition",
               "doc texts are benign sentences (no reST markup) so the indentation view is exact",
               "an implementing definition that carries a doccomment of its own may or may not get an entry (left open); "
               "everything around it is asserted"]
BUDGET = {"quick": {"shards": 4, "examples": 300}, "thorough": {"shards": 16, "examples": 4000}}


def strategy(tier):
    from vlib.cminx_run import dispatch_collisions
    # user commands whose names collide with the aggregator's `process_<name>` dispatch come first in the pool
    cmds = dispatch_collisions() + G.GENERIC_CMDS
    p = G.Profile(max_items=8 if tier == "quick" else 14, depth=3 if tier == "quick" else 4, impl_doc=True, nest_all=True, dups=True,
                  generic_cmds=cmds)
    return st.fixed_dictionaries({"module": G.module(p), "layout": G.layout_choices()})


def extra(ctx):
    """Modules with 125..450 top-level items (a drawn item list tiled 25..45 times, every copy with its own names), most of them documented (bookkeeping that grows with the file)."""
    from .common import large_campaign
    from vlib.cminx_run import dispatch_collisions
    p = G.Profile(max_items=10, min_items=5, depth=2, body_max=2, p_doc_mostly=True, impl_doc=True, dups=True,
                  generic_cmds=dispatch_collisions() + G.GENERIC_CMDS)
    large_campaign(ctx, st.fixed_dictionaries({"module": G.module(p, repeat=st.integers(25, 45)), "layout": G.layout_choices()}),
                   evaluate, 6 if ctx.tier == "quick" else 40)


def nontrivial(module):
    all_items = list(G.walk(module["items"]))
    if len(all_items) < 4:
        return False
    nesting = any(it["k"] in ("func", "block", "class", "member", "test", "section") and
                  (it.get("body") or (it.get("impl") or {}).get("body")) for it, _, _ in all_items)
    docd = any(it.get("doc") for it, _, _ in all_items if it["k"] != "dangling")
    und = any(it.get("doc") is None for it, _, _ in all_items if it["k"] not in ("dangling", "parseargs"))
    special = False
    for it, depth, parent in all_items:
        if it["k"] == "dangling":
            special = True
        if it["k"] == "set" and it["doc"] is None:
            special = True
        if it["k"] == "option" and depth > 0:
            special = True

    def after_impl(lst):
        for a, b in zip(lst, lst[1:]):
            if a["k"] in ("member", "test", "section") and b["k"] == "func":
                return True
        return False
    for it, _, _ in all_items:
        for key in ("body",):
            if key in it and after_impl(it[key]):
                special = True
        if "impl" in it and after_impl(it["impl"]["body"]):
            special = True
    if after_impl(module["items"]):
        special = True
    return nesting and docd and und and special


def evaluate(case):
    module, layout = case["module"], case["layout"]
    res = Result()
    src = R.render(module, layout)
    run = document_text(src, real_settings())
    ks = kinds_present(module)
    res.labels += ["kind:" + k for k in sorted(ks)]
    res.labels.append("layout:canonical" if not layout else "layout:varied")
    res.nontrivial = nontrivial(module)
    if res.nontrivial:
        res.sample = {"source": short(src, 900)}
    if run.exc is not None:
        res.fail(exc_key(run.exc), repr(run.exc)[:300])
        return res
    page = V.Page(run.text)
    exp = M.expected(module)
    multiline_value = any(it["k"] == "set" and it.get("doc") and any("\n" in v for v in it["values"])
                          for it, _, _ in G.walk(module["items"]))
    for f in C.structure_checks(page):
        if f[0] == "stray-top-level" and multiline_value:
            continue        # a value with a line break continues at column 0 (argument values with line breaks: C07's carve-out)
        res.fail(*f)
    for f in C.compare_entries(exp, page):
        res.fail(*f)
    # second observation point: DocumentationAggregator.documented (public API), type + name sequence
    api_kind = {"FunctionDocumentation": "function", "MacroDocumentation": "macro", "VariableDocumentation": "set",
                "OptionDocumentation": "option", "GenericCommandDocumentation": "generic", "ClassDocumentation": "class",
                "TestDocumentation": "test", "SectionDocumentation": "section", "CTestDocumentation": "addtest"}
    got_api = [(api_kind.get(type(d).__name__, type(d).__name__), d.name) for d in (run.documented or [])
               if type(d).__name__ != "ModuleDocumentation"]
    want_api = [(e["kind"], e["name"]) for e in exp if not e.get("optional")]
    opt_names = {e["name"] for e in exp if e.get("optional")}
    got_api = [(k, n) for k, n in got_api if not (k in ("function", "macro") and n in opt_names)]
    if [(k, n.lower() if k == "generic" else n) for k, n in got_api] != \
            [(k, n.lower() if k == "generic" else n) for k, n in want_api]:
        i = next((j for j, (a, b) in enumerate(zip(got_api, want_api)) if a != b), min(len(got_api), len(want_api)))
        res.fail("api-documented-sequence", f"aggregator.documented differs from the expected sequence at {i}: "
                                            f"got {got_api[i:i + 2]} expected {want_api[i:i + 2]}")
    # things that must leave no trace
    if "ZZCMT" in run.text:
        res.fail("comment-text-in-output", "annotation comment text reached the output")
    if "UNDOC_" in run.text:
        res.fail("undocumented-command-in-output", "an undocumented non-documentable command reached the output")
    for it, _, _ in G.walk(module["items"]):
        if it["k"] == "dangling" and it["doc"]["marker"] and it["doc"]["marker"] in run.text:
            res.fail("dangling-doc-in-output", f"dangling doccomment {it['doc']['marker']} reached the output")
    # every doc marker exactly once
    for it, _, _ in G.walk(module["items"]):
        d = it.get("doc")
        if d and d.get("marker") and it["k"] != "dangling":
            n = run.text.count(d["marker"])
            if n != 1:
                res.fail("marker-count", f"doc marker {d['marker']} of a {it['k']} occurs {n} times")
    return res


def describe(case):
    return {"source": R.render(case["module"], case["layout"])}
