"""C12 Title and module name derive from prefix and relative path, or @module."""
import os

from hypothesis import strategies as st

from vlib import gen_cmake as G, render as R, model as M, rstview as V, sandbox as S, gen_tree as T
from vlib.harness import Result
from .common import exc_key
from . import C01

ID = "C12"
LEVEL = "exploration"
RULE = ("trees of lower-case .cmake files at depth 0..4 whose contents are generated modules with/without an '@module' "
        "doccomment (with/without name, arbitrary printable-Unicode body, indented or not, followed directly by documented "
        "or undocumented commands), run as directory input (spelled absolute, relative, './x/' or '.' from inside) or as "
        "lone file input, prefix absent / -p / settings file, module_path_separator in {'.','::','/','-','->'}, both "
        "extension options, custom header character lists; oracle on the line view of every page: overline == underline "
        "== headers[0]*len(title); exactly one module directive before any entry; title/module name = [prefix sep] + "
        "relative path components in order ending in the stem (+'.cmake' iff the option), no absolute-path component, "
        "base name for a lone file, pairwise distinct, differing only as the extension options dictate; with '@module "
        "<name>' both equal <name>, the doccomment body is the module directive's content and none of it appears in the "
        "following command's entry. Non-trivial: depth>=2 or separator != '.' or lone-file input or '@module' directly "
        "followed by a command; distinct by SHA-1 of the case")
RULE_MORE = "input directory names with dots, a leading dot or blanks (the default prefix); '@module' names ending in '.cmake'. Later: prior run under another prefix; dir-link mode; backslash and blank-ended names; braces in prefix / separator; whitespace variants around '@module'; (round 10) prefixes holding '/' (`org/project`, `tools/`), a backup mirror below the input directory that repeats the input directory's absolute path; the title frame of every index.rst; (round 11) the parent of the input directory documented first in the same process."
ASSUMPTIONS = ["file names end in lower-case .cmake", "how inner path components are joined is not constrained, only their order"]
BUDGET = {"quick": {"shards": 8, "examples": 100}, "thorough": {"shards": 16, "examples": 1500}}

SEPS = [".", ".", "::", "/", "-", "->", "_", "}{", "%s"]
HEADER_POOL = list("#*=-_~!&@^+:'\"`$%<>")


def _module():
    doc = C01.unicode_doc(4, 40)
    p = G.Profile(doc=doc, p_doc_mostly=False, max_items=3, depth=1, dangling=False, body_max=1, groups=False,
                  moddoc_indent=st.one_of(st.just(""), st.text(alphabet=" \t", max_size=6)))
    return st.fixed_dictionaries({"module": G.module(p), "layout": st.lists(st.integers(0, 23), max_size=6)})


def _tree(depth):
    # a backslash is an ordinary character in POSIX file names
    names = ["util\\str.cmake", "utils .cmake", " lead.cmake", "utils.cmake"] + [n for n in T.CMAKE_NAMES]
    files = st.dictionaries(st.sampled_from(names), _module(), max_size=3)
    if depth <= 0:
        return st.fixed_dictionaries({"files": files, "dirs": st.just({})})
    return st.fixed_dictionaries({"files": files,
                                  "dirs": st.dictionaries(st.sampled_from(["win\\paths", "util"] + T.DIR_NAMES), st.deferred(lambda: _tree(depth - 1)),
                                                          max_size=2)})


def strategy(tier):
    depth = 3 if tier == "quick" else 4
    return st.fixed_dictionaries({
        "tree": _tree(depth),
        "mode": st.sampled_from(["dir-abs", "dir-abs", "dir-rel", "dir-dot", "dir-dotslash", "file-abs", "file-rel", "dir-after-other",
                                  "file-after-dir", "dir-link"]),
        "prefix": st.sampled_from([None, None, ["-p", "org/project"], ["cfg", "tools/"], ["-p", "pfx"], ["-p", "My.Proj"], ["cfg", "cfgpfx"], ["-p", "p q"], ["-p", "préfix"], ["-p", "core{{v2}}"], ["-p", "${PROJECT_NAME}"], ["cfg", "{0}"]]),
        "sep": st.sampled_from(SEPS),
        "ext_titles": st.booleans(),
        "ext_modules": st.booleans(),
        "headers": st.one_of(st.none(), st.lists(st.sampled_from(HEADER_POOL), min_size=1, max_size=10, unique=True)),
        "pick": st.integers(0, 50),
        "symlink": st.sampled_from([False, False, True]),
        # name of the input directory (it is the default prefix): dots, dashes, a leading dot, a blank
        # the same input was documented into the same output before, under another prefix and other header characters
        "prior": st.sampled_from([False, False, True]),
        "mirror": st.sampled_from([False, False, False, True]),
        "parent_first": st.sampled_from([False, True, False]),
        "inname": st.sampled_from(["in", "widgets-2.1", "in", "my.project", ".proj", "v1.2.3", "In Put", "lib.cmake"]),
    })


def flatten(tree, prefix=""):
    out = []
    for name in sorted(tree["files"]):
        out.append((prefix + name, tree["files"][name]))
    for name in sorted(tree["dirs"]):
        if name in tree["files"]:
            continue
        out += flatten(tree["dirs"][name], prefix + name + "/")
    return out


def check_page(text, rel, mod_case, case, prefix_applies, prefix, res, titles, modnames, lone):
    sep = case["sep"]
    hdr = (case["headers"] or list("#*=-_~!&@^"))[0]
    page = V.Page(text)
    module = mod_case["module"]
    md = module.get("moddoc")
    where = f"{rel}"
    if page.title is None or page.over is None or page.under is None:
        res.fail("title-missing", f"{where}: page has no title block")
        return
    if page.over != hdr * len(page.title) or page.under != hdr * len(page.title):
        res.fail("title-frame", f"{where}: title {page.title!r} framed by {page.over!r}/{page.under!r}, expected {hdr!r}*{len(page.title)}")
    # exactly one module directive before any entry
    blocks = V.top_blocks(text)
    mods = [i for i, b in enumerate(blocks) if b[0] == "module"]
    if len(mods) != 1:
        res.fail("module-directive-count", f"{where}: {len(mods)} module directives")
        return
    if mods[0] != 0:
        res.fail("module-directive-not-first", f"{where}: module directive is block {mods[0]}")
    modname = blocks[mods[0]][1]
    stem = os.path.basename(rel)[:-len(".cmake")]
    comps = rel.split("/")[:-1]
    if md is not None and md.get("name"):
        if page.title != md["name"] or modname != md["name"]:
            res.fail("module-name-override", f"{where}: '@module {md['name']}' but title {page.title!r} module {modname!r}")
    else:
        for what, val, keep_ext in (("title", page.title, case["ext_titles"]), ("module", modname, case["ext_modules"])):
            rest = val
            if prefix_applies:
                if not val.startswith(prefix + sep):
                    res.fail(f"{what}-prefix", f"{where}: {what} {val!r} does not start with {prefix + sep!r}")
                    continue
                rest = val[len(prefix + sep):]
            tail = stem + (".cmake" if keep_ext else "")
            if not rest.endswith(tail):
                res.fail(f"{what}-stem", f"{where}: {what} {val!r} does not end with {tail!r}")
                continue
            if not keep_ext and rest.endswith(".cmake") and not stem.endswith(".cmake"):
                res.fail(f"{what}-extension-kept", f"{where}: {what} {val!r} keeps the extension")
            body = rest[:len(rest) - len(tail)]
            pos = 0
            ok = True
            for c in comps:
                j = body.find(c, pos)
                if j < 0:
                    ok = False
                    break
                pos = j + len(c)
            if not ok:
                res.fail(f"{what}-path-components", f"{where}: {what} {val!r} lacks the path components {comps} in order")
            junk = body
            for c in comps:
                junk = junk.replace(c, "", 1)
            if junk.strip("/." + sep) != "":
                res.fail(f"{what}-foreign-text", f"{where}: {what} {val!r} contains {junk!r} besides prefix, path components and stem")
            if (("sbx_" in val or "/dev/shm" in val) and "sbx_" not in rel) or (lone and "/" in rest and sep != "/"):
                res.fail(f"{what}-absolute-path", f"{where}: {what} {val!r} contains an absolute-path component")
        t_core = page.title[:-len(".cmake")] if case["ext_titles"] and page.title.endswith(".cmake") else page.title
        m_core = modname[:-len(".cmake")] if case["ext_modules"] and modname.endswith(".cmake") else modname
        if t_core != m_core:
            res.fail("title-module-differ", f"{where}: title {page.title!r} vs module {modname!r} differ beyond the extension options")
        titles.setdefault(page.title, []).append(rel)
        modnames.setdefault(modname, []).append(rel)
    # module doccomment content
    if md is not None and md.get("marker"):
        body = blocks[mods[0]][2]
        hits = [i for i, l in enumerate(body) if md["marker"] in l]
        if len(hits) != 1 or text.count(md["marker"]) != 1:
            res.fail("module-doc-attribution", f"{where}: module doc marker occurs {len(hits)} times in the module directive, "
                                               f"{text.count(md['marker'])} times in the page")
        else:
            mi = next(i for i, l in enumerate(md["lines"]) if md["marker"] in l)
            start = hits[0] - mi
            for off, want in enumerate(md["lines"]):
                got = body[start + off] if 0 <= start + off < len(body) else None
                if want.strip() == "":
                    if got is None or got.strip() != "":
                        res.fail("module-doc-text", f"{where}: module doc line {off}: expected blank got {got!r}")
                        break
                elif got != "   " + want:
                    res.fail("module-doc-text", f"{where}: module doc line {off}: expected {'   ' + want!r} got {got!r}")
                    break


def evaluate(case):
    res = Result()
    files = flatten(case["tree"])
    if not files:
        res.labels.append("discarded:empty-tree")
        return res
    lone = case["mode"].startswith("file")
    with S.Sandbox("c12") as sb:
        inname = case.get("inname") or "in"
        inp = sb.path(inname)
        os.makedirs(inp)
        for k, (rel, mc) in enumerate(files):
            md = mc["module"].get("moddoc")
            if md and md["lines"] and k % 2 == 0 and case.get("prior") is not None:
                # characters str.splitlines() would break on, inside a module doc line
                md["lines"] = list(md["lines"]) + ["", "Form\x0cfeed #and [more", "", "", "nel\x85 ]x ls\u2028 #y"]
        for rel, mc in files:
            p = os.path.join(inp, rel)
            os.makedirs(os.path.dirname(p), exist_ok=True)
            with open(p, "wb") as f:
                f.write(R.render(mc["module"], mc["layout"]).encode("utf-8"))
        if case.get("mirror") and not lone:
            # a backup mirror below the input directory repeats the input directory's own absolute path
            rel0, mc0 = files[0]
            mrel = "backup/" + os.path.abspath(inp).lstrip("/") + "/" + os.path.basename(rel0)
            os.makedirs(os.path.dirname(os.path.join(inp, mrel)), exist_ok=True)
            with open(os.path.join(inp, mrel), "wb") as f:
                f.write(R.render(mc0["module"], mc0["layout"]).encode("utf-8"))
            files = files + [(mrel, mc0)]
            res.labels.append("mirror-of-own-absolute-path")
        deep = [rel for rel, _ in files if "/" in rel]
        if case.get("symlink") and deep and not lone:
            # zz_link.cmake in the input root points at a module further down: its title derives from where the LINK is
            os.symlink(os.path.join(inp, deep[0]), os.path.join(inp, "zz_link.cmake"))
            files = files + [("zz_link.cmake", dict(files)[deep[0]])]
        cfg = sb.path("settings.yaml")
        with open(cfg, "w", encoding="utf-8") as f:
            f.write("input:\n  auto_exclude_directories_without_cmake: false\nrst:\n")
            f.write(f"  module_path_separator: {case['sep']!r}\n")
            f.write(f"  file_extensions_in_titles: {'true' if case['ext_titles'] else 'false'}\n")
            f.write(f"  file_extensions_in_modules: {'true' if case['ext_modules'] else 'false'}\n")
            if case["headers"]:
                f.write("  headers: [" + ", ".join(repr(h) if h != "'" else '"\'"' for h in case["headers"]) + "]\n")
            if case["prefix"] and case["prefix"][0] == "cfg":
                f.write(f"  prefix: {case['prefix'][1]!r}\n")
        out = sb.path("out")
        cwd = sb.path("cwd")
        target_rel = None
        if lone:
            target_rel, target_mc = files[case["pick"] % len(files)]
            fabs = os.path.join(inp, target_rel)
            if case["mode"] in ("file-abs", "file-after-dir"):
                arg = fabs
            else:
                cwd = os.path.dirname(fabs)
                arg = os.path.basename(fabs)
            argv = [arg, "-o", out, "-s", cfg]
        else:
            if case["mode"] == "dir-link":
                # the directory is given through a symbolic link with a name of its own: the name GIVEN is the default prefix
                os.symlink(inname, sb.path("linked.docs"))
                arg = sb.path("linked.docs")
                inname = "linked.docs"
            elif case["mode"] in ("dir-abs", "dir-after-other"):
                arg = inp
            elif case["mode"] == "dir-rel":
                cwd, arg = sb.root, inname
            elif case["mode"] == "dir-dotslash":
                cwd, arg = sb.root, "./" + inname + "/"
            else:
                cwd, arg = inp, "."
            argv = [arg, "-o", out, "-s", cfg, "-r"]
        if case["prefix"] and case["prefix"][0] == "-p":
            argv += case["prefix"]
        if case["mode"] in ("dir-after-other", "file-after-dir"):
            # another directory is documented first in the same invocation (names disjoint from the tree under test)
            other = sb.path("else", "otherdir")
            os.makedirs(os.path.join(other, "zz_o"))
            for nm in ("zz_first.cmake", "zz_o/zz_second.cmake"):
                with open(os.path.join(other, nm), "w") as f:
                    f.write("function(zz_fn a)\nendfunction()\n")
            argv = [other] + argv
        if case.get("parent_first") and not lone:
            # the directory that holds the input directory was documented before in this process: other root, same files
            res.labels.append("parent-directory-documented-first")
            S.run_main([os.path.dirname(os.path.abspath(inp)), "-r", "-o", sb.path("out_of_parent_run")], cwd=cwd)
        if case.get("prior"):
            res.labels.append("prior-run-with-another-prefix")
            S.run_main([a for a in argv if a != cfg and a != "-s"] + ["-p", "EarlierPrefix"], cwd=cwd)
        run = S.run_main(argv, cwd=cwd)
        if run.exc is not None or run.code != 0:
            res.fail(exc_key(run.exc) if run.exc else f"exit-{run.code}", (repr(run.exc) + run.stderr)[-300:])
            return res
        explicit = case["prefix"][1] if case["prefix"] else None
        if lone:
            prefix_applies, prefix = explicit is not None, explicit
        else:
            prefix_applies, prefix = True, explicit if explicit is not None else inname
        titles, modnames = {}, {}
        todo = [(target_rel, target_mc)] if lone else files
        for rel, mc in todo:
            page_path = os.path.join(out, os.path.basename(rel)[:-6] + ".rst") if lone else os.path.join(out, rel[:-6] + ".rst")
            if not os.path.exists(page_path):
                res.fail("page-missing", f"{rel}: no page written")
                continue
            with open(page_path, encoding="utf-8") as fh:
                text = fh.read()
            check_page(text, os.path.basename(rel) if lone else rel, mc, case, prefix_applies, prefix, res, titles, modnames, lone)
        if not lone:
            # the directory indexes are generated pages too: same title frame from the first configured header character
            h0 = case["headers"][0] if case["headers"] else "#"
            for dirpath, _dn, fns in os.walk(out):
                if "index.rst" in fns and not any(r == os.path.relpath(os.path.join(dirpath, "index.cmake"), out) for r, _ in files):
                    with open(os.path.join(dirpath, "index.rst"), encoding="utf-8") as fh:
                        lines = fh.read().split("\n")
                    while lines and lines[0] == "":
                        lines.pop(0)
                    where = os.path.relpath(os.path.join(dirpath, "index.rst"), out)
                    if len(lines) < 3 or lines[0] != lines[2] or set(lines[0]) != {h0} or len(lines[0]) != len(lines[1]):
                        res.fail("index-title-frame", f"{where}: frame {lines[:3]!r} is not {h0!r} repeated to the title's length")
        for what, d in (("title", titles), ("module", modnames)):
            for val, rels in d.items():
                if len(rels) > 1:
                    res.fail(f"{what}-not-distinct", f"{what} {val!r} used for {rels}")
    depth = max(rel.count("/") for rel, _ in files)
    mod_then_cmd = any(mc["module"].get("moddoc") and mc["module"]["items"] for _, mc in files)
    if (case.get("inname") or "in") != "in":
        res.labels.append("input-directory-name-with-dots-or-blanks")
    res.labels += ["mode:" + case["mode"], "sep:" + case["sep"], "prefix:" + (case["prefix"][0] if case["prefix"] else "none"),
                   f"depth:{min(depth, 3)}"]
    if any(mc["module"].get("moddoc") and mc["module"]["moddoc"].get("name") for _, mc in files):
        res.labels.append("module-doc-named")
    if mod_then_cmd:
        res.labels.append("module-doc-then-command")
    if case["headers"]:
        res.labels.append("custom-headers")
    res.nontrivial = depth >= 2 or case["sep"] != "." or lone or mod_then_cmd
    if res.nontrivial:
        res.sample = {"files": [r for r, _ in files], "mode": case["mode"], "prefix": case["prefix"], "sep": case["sep"],
                      "ext": [case["ext_titles"], case["ext_modules"]], "headers": case["headers"]}
    return res


def describe(case):
    files = flatten(case["tree"])
    out = {"files": [r for r, _ in files], "options": {k: case[k] for k in ("mode", "prefix", "sep", "ext_titles", "ext_modules", "headers", "pick")}}
    for rel, mc in files[:4]:
        out["src:" + rel] = R.render(mc["module"], mc["layout"])
    return out
