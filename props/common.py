"""Helpers shared by the module-level property checks (C01-C12)."""
import traceback

from vlib import gen_cmake as G
from vlib.harness import Result


def exc_key(exc):
    """Bucket key of an exception raised by the code under test: type + innermost cminx frame."""
    if getattr(exc, "_verif_invalid_source", False):
        return "HARNESS:generated-source-is-not-valid-cmake"
    tb = traceback.extract_tb(exc.__traceback__)
    frame = None
    for fr in tb:
        if "/cminx/" in fr.filename and "/parser/CMake" not in fr.filename:
            frame = fr
    where = f"{frame.filename.split('/cminx/')[-1]}:{frame.name}" if frame else "outside-cminx"
    return f"exception:{type(exc).__name__}:{where}"


def kinds_present(module):
    ks = {}
    for it, depth, parent in G.walk(module["items"]):
        ks.setdefault(it["k"], []).append((it, depth, parent))
    return ks


def short(text, n=1500):
    return text if len(text) <= n else text[:n] + f"... [{len(text)} chars]"


def large_campaign(ctx, strat, evaluate, n, label="large-module"):
    """A few cases far beyond the size of the main campaign's (hundreds of items in one module), drawn by a seeded
    Hypothesis run of their own; every case is recorded like a campaign case (same schema, so --replay works)."""
    import hypothesis
    from hypothesis import given, settings, HealthCheck, Phase

    @hypothesis.seed(ctx.seed * 7919 + 11)
    @settings(max_examples=n, deadline=None, database=None, phases=[Phase.generate], suppress_health_check=list(HealthCheck))
    @given(strat)
    def run(case):
        from vlib.harness import safe_evaluate

        class _Mod:
            pass
        _Mod.evaluate = staticmethod(evaluate)
        r = safe_evaluate(_Mod, case)
        r.labels.append(label)
        r.labels.append(f"{label}:items>={len(case['module']['items']) // 50 * 50}")
        ctx.record(case, r)
    run()
