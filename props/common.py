"""Helpers shared by the module-level property checks (C01-C12)."""
import traceback

from vlib import gen_cmake as G
from vlib.harness import Result


def exc_key(exc):
    """Bucket key of an exception raised by the code under test: type + innermost cminx frame."""
    tb = traceback.extract_tb(exc.__traceback__)
    frame = None
    for fr in tb:
        if "/cminx/" in fr.filename and "/parser/CMake" not in fr.filename:
            frame = fr
    where = f"{frame.filename.split('/cminx/')[-1]}:{frame.name}" if frame else "outside-cminx"
    return f"exception:{type(exc).__name__}:{where}"


def kinds_present(module):
    ks = {}
    for it, depth, parent in G.walk(module["items"]):
        ks.setdefault(it["k"], []).append((it, depth, parent))
    return ks


def short(text, n=1500):
    return text if len(text) <= n else text[:n] + f"... [{len(text)} chars]"
