"""C19 cminx_gen_rst() in CMake is equivalent to the command line (differential, process-bound)."""
import json
import os
import subprocess

from hypothesis import strategies as st

from vlib import SRC, REPO, gen_tree as T, sandbox as S, gen_cmake as G
from vlib.harness import Result, HarnessError

ID = "C19"
LEVEL = "exploration"
RULE = ("inputs {single file, flat directory, nested directory, missing path, file with a syntax error, file with a lexical "
        "error, directory containing a faulty file}, spelled absolute or relative to the cmake working directory, x extra "
        "argument lists (none, one or several of -p <prefix with spaces/dots/unicode>, -e <glob>, -s <file>; values "
        "non-empty and free of ';'); a generated driver script (set(CMINX_EXECUTABLE <wrapper>), include(cmake/cminx.cmake), "
        "cminx_gen_rst(...), file(WRITE marker)) is run with `cmake -P`; the wrapper logs its argv and runs the working-tree "
        "CMinx; oracle: logged argv == [input] + ['-r' iff directory] + extras + ['-o', output], output tree byte-identical "
        "to the direct CLI run with that argv, cmake fails (no marker) iff the direct run fails. Non-trivial: extra list "
        "non-empty, or failing input; distinct by SHA-1 of the case")
RULE_MORE = "argument values that change under a second CMake evaluation (${VAR}, escaped characters); project mode: the call sits in an add_subdirectory() level of a project configured from a working directory other than its source directory; drivers declare cmake_minimum_required. Later: values with leading/trailing blanks; pages of other inputs in both outputs; paths with ':' '\\' and unbalanced brackets."
ASSUMPTIONS = ["CMake 3.25.1 at /usr/bin/cmake is the host; a CMake list cannot carry ';' unescaped, so values avoid it",
               "the order of the option groups is taken from the documented behaviour of cminx.cmake (input, -r, extras, -o output)"]
BUDGET = {"quick": {"shards": 8, "examples": 25}, "thorough": {"shards": 16, "examples": 150}}

CMAKE = "/usr/bin/cmake"
# values that change when CMake evaluates them a second time come first
PREFIXES = ["VERBOSE", "Tools ", "COMMAND", "RESULT_VARIABLE", "OUTPUT_QUIET", "QUIET", "${CMAKE_VERSION}", "tab\t", " lead", "a\\\\b", "$ENV{HOME}", "@CMAKE_VERSION@", "pfx", "my prefix", "a.b.c", "préfixe 漢", "p-1", "x y  z", "$dollar", "quo\"te", "back\\slash", "(paren)", "#hash", "N", "OFF", "0", "IGNORE", "a-NOTFOUND", "FALSE", "no", "my-repo", "api-reference"]
GLOBS = ["VERBOSE", "\\#*", "*\\[wip\\]*", "${x}*", "*b.cmake", "sub", "**/sub/*", "a?.cmake", "pre*", "x y", "third-party-release"]


# keywords of execute_process(): an extra argument spelled like one of them is taken for the keyword by CMake itself
EP_KEYWORDS = {"COMMAND", "WORKING_DIRECTORY", "TIMEOUT", "RESULT_VARIABLE", "RESULTS_VARIABLE", "OUTPUT_VARIABLE", "ERROR_VARIABLE",
               "INPUT_FILE", "OUTPUT_FILE", "ERROR_FILE", "OUTPUT_QUIET", "ERROR_QUIET", "COMMAND_ECHO",
               "OUTPUT_STRIP_TRAILING_WHITESPACE", "ERROR_STRIP_TRAILING_WHITESPACE", "ENCODING", "ECHO_OUTPUT_VARIABLE",
               "ECHO_ERROR_VARIABLE", "COMMAND_ERROR_IS_FATAL"}


def in_known_region(case):
    """P19: an extra argument (flag or value) that is spelled exactly like a keyword of execute_process()."""
    return any(v in EP_KEYWORDS or f in EP_KEYWORDS for f, v in case.get("extras") or [])


KNOWN = {"P19": {"region": in_known_region,
                 "keys": ["wrapper-call-count", "argv:*", "output-tree-differs", "cmake-fails-but-cli-succeeds",
                          "failure-not-propagated", "marker-missing-after-success", "configure-continues-after-failure"]}}


def strategy(tier):
    extra = st.one_of(st.tuples(st.just("-p"), st.sampled_from(PREFIXES)),
                      st.tuples(st.just("-e"), st.sampled_from(GLOBS)),
                      st.tuples(st.just("-s"), st.sampled_from(["ext_titles", "no_auto", "headers"])))
    return st.fixed_dictionaries({
        "tree": T.dir_tree(2, max_files=3, max_dirs=2, mixed_case=False, force_cmake_top=True),
        "input": st.sampled_from(["dir", "dir", "flat-dir", "file", "missing", "syntax-error-file", "lexical-error-file",
                                  "dir-with-faulty-file"]),
        "relative": st.booleans(),
        "out_relative": st.booleans(),
        "extras": G.weighted((1, st.just([])), (4, st.lists(extra, min_size=1, max_size=3))),
        "prior": st.sampled_from([True, False, False]),
        "from_function": st.sampled_from([True, False, False]),
        # script mode (cmake -P) or a project configured from a working directory that is not its source directory
        "via": st.sampled_from(["script", "project", "script"]),
        # characters CMake's path helpers treat specially (list separators of search paths, Windows separators)
        "odd_paths": st.sampled_from([False, True, False, "bracket"]),
    })


def cmake_quote(s):
    return '"' + s.replace("\\", "\\\\").replace('"', '\\"').replace("$", "\\$") + '"'


WRAPPER = """#!/venv/bin/python
import sys, json, os
with open(os.environ["C19_LOG"], "a") as f:
    f.write(json.dumps(sys.argv[1:]) + "\\n")
sys.path.insert(0, %r)
import warnings
warnings.simplefilter("ignore")
import cminx
cminx.main(sys.argv[1:])
"""

SFILES = {"ext_titles": "rst:\n  file_extensions_in_titles: true\n",
          "no_auto": "input:\n  auto_exclude_directories_without_cmake: false\n",
          "headers": "rst:\n  headers: ['=', '-', '~']\n"}


def evaluate(case):
    res = Result()
    tree = T.fill(T.ensure_lowercase_cmake(case["tree"]))
    with S.Sandbox("c19") as sb:
        work = sb.path("work")
        os.makedirs(work)
        odd = bool(case.get("odd_paths"))
        n_in, n_cm, n_cli = ("in:put", "out:cm\\a", "out:cli\\a") if odd else ("in put", "out cm", "out cli")
        if case.get("odd_paths") == "bracket":
            n_in, n_cm, n_cli = "mods[legacy", "out]cm", "out]cli"      # unbalanced brackets matter when CMake splits lists
        if odd:
            res.labels.append("paths-with-colon-and-backslash")
        inp = os.path.join(work, n_in)
        kind = case["input"]
        if kind == "flat-dir":
            tree = {"files": tree["files"], "dirs": {}}
        S.materialize(tree, inp)
        top = sorted(n for n in tree["files"] if n.endswith(".cmake"))[0]
        if kind in ("dir", "flat-dir"):
            in_abs = inp
        elif kind == "file":
            in_abs = os.path.join(inp, top)
        elif kind == "missing":
            in_abs = os.path.join(work, "does-not-exist")
        elif kind == "syntax-error-file":
            in_abs = os.path.join(inp, "bad.cmake")
            with open(in_abs, "w") as f:
                f.write("function(a b\nset(x 1)\n")
        elif kind == "lexical-error-file":
            in_abs = os.path.join(inp, "bad.cmake")
            with open(in_abs, "w") as f:
                f.write('set(x "unterminated)\nfunction(f)\nendfunction()\n')
        else:
            in_abs = inp
            with open(os.path.join(inp, "zz_bad.cmake"), "w") as f:
                f.write("function(a b\n")
        in_arg = os.path.relpath(in_abs, work) if case["relative"] else in_abs
        out_cm = n_cm if case["out_relative"] else os.path.join(work, n_cm)
        out_cli = n_cli if case["out_relative"] else os.path.join(work, n_cli)
        extras = []
        for flag, val in case["extras"]:
            if flag == "-s":
                p = os.path.join(work, val + ".yaml")
                with open(p, "w") as f:
                    f.write(SFILES[val])
                val = p
            extras += [flag, val]
        wrapper = os.path.join(work, "cminx-wrapper.py")
        with open(wrapper, "w") as f:
            f.write(WRAPPER % SRC)
        os.chmod(wrapper, 0o755)
        log = os.path.join(work, "argv.log")
        marker = os.path.join(work, "marker")
        driver = os.path.join(work, "driver.cmake")
        with open(driver, "w", encoding="utf-8") as f:
            # as every project does; without it CMP0053 is OLD and the driver's own quoted arguments would have @VAR@ replaced
            f.write("cmake_minimum_required(VERSION 3.14)\n")
            f.write(f"set(CMINX_EXECUTABLE {cmake_quote(wrapper)})\n")
            f.write(f"include({cmake_quote(os.path.join(REPO, 'cmake', 'cminx.cmake'))})\n")
            call = "cminx_gen_rst(" + " ".join(cmake_quote(a) for a in [in_arg, out_cm] + extras) + ")\n"
            if case.get("from_function"):
                # the call sits in a user function that itself received more arguments than it forwards
                f.write("function(add_docs name src out group note extra1 extra2)\n  " + call + "endfunction()\n")
                f.write('add_docs(n s o "public API" "a note" -p leaked)\n')
            else:
                f.write(call)
            f.write(f"file(WRITE {cmake_quote(marker)} \"done\")\n")
        env = dict(os.environ, C19_LOG=log, CMINXDIR=sb.path("cfg"), HOME=sb.path("cfg"), XDG_CONFIG_HOME=sb.path("cfg"),
                   PYTHONHASHSEED="0")
        if case.get("prior"):
            # history: an earlier call without extra arguments already filled both output directories
            res.labels.append("prior-call-into-same-output")
            d0 = os.path.join(work, "driver0.cmake")
            with open(d0, "w", encoding="utf-8") as f:
                f.write("cmake_minimum_required(VERSION 3.14)\n")
                f.write(f"set(CMINX_EXECUTABLE {cmake_quote(wrapper)})\n")
                f.write(f"include({cmake_quote(os.path.join(REPO, 'cmake', 'cminx.cmake'))})\n")
                f.write("cminx_gen_rst(" + " ".join(cmake_quote(a) for a in [in_arg, out_cm]) + ")\n")
            subprocess.run([CMAKE, "-P", d0], cwd=work, env=dict(env, C19_LOG=log + ".prior"), capture_output=True, text=True)
            S.run_main([in_arg] + (["-r"] if os.path.isdir(in_abs) else []) + ["-o", out_cli], cwd=work, cfgdir=sb.path("cfg"))
            # ... and both hold pages this call does not regenerate (another input's, hand-written ones)
            for o in (n_cm, n_cli):
                for rel in ("hand_written.rst", "zz_other_input.rst", "zz_sub/older.rst"):
                    pth = os.path.join(work, o, rel)
                    os.makedirs(os.path.dirname(pth), exist_ok=True)
                    with open(pth, "w") as f:
                        f.write("Kept\n====\n")
        if case.get("via") == "project":
            res.labels.append("project-mode")
            os.makedirs(os.path.join(work, "proj", "docs"))
            lines = open(driver, encoding="utf-8").read().split("\n")
            with open(os.path.join(work, "proj", "CMakeLists.txt"), "w", encoding="utf-8") as f:
                f.write(lines[0] + "\nproject(docs NONE)\nadd_subdirectory(docs)\n")
            with open(os.path.join(work, "proj", "docs", "CMakeLists.txt"), "w", encoding="utf-8") as f:
                f.write("\n".join(lines[1:]))
            p = subprocess.run([CMAKE, "-S", "proj", "-B", "build"], cwd=work, env=env, capture_output=True, text=True)
        else:
            p = subprocess.run([CMAKE, "-P", driver], cwd=work, env=env, capture_output=True, text=True)
        is_dir = os.path.isdir(in_abs)
        want_argv = [in_arg] + (["-r"] if is_dir else []) + extras + ["-o", out_cm]
        logged = [json.loads(l) for l in open(log)] if os.path.exists(log) else []
        if len(logged) != 1:
            res.fail("wrapper-call-count", f"CMinx executable invoked {len(logged)} times; cmake said {p.stderr[-200:]!r}")
            return res
        got = list(logged[0])
        # the property fixes the pieces, not the order of the groups: input, optional -r, '-o <output>', extras verbatim
        problems = []
        if in_arg in got:
            got.remove(in_arg)
        else:
            problems.append(("argv:input", f"input {in_arg!r} not passed"))
        if "-o" in got and got.index("-o") + 1 < len(got) and got[got.index("-o") + 1] == out_cm:
            i = got.index("-o")
            del got[i:i + 2]
        else:
            problems.append(("argv:output", f"'-o {out_cm}' not passed"))
        has_r = False
        if got != extras:
            # one stray '-r' is the recursive flag
            for i, a in enumerate(got):
                if a == "-r" and got[:i] + got[i + 1:] == extras:
                    has_r = True
                    got = got[:i] + got[i + 1:]
                    break
        if got != extras:
            problems.append(("argv:extras", f"extra arguments {extras} arrived as {got}"))
        elif has_r != is_dir:
            problems.append(("argv:recursive-flag", f"-r {'passed' if has_r else 'missing'} for a "
                                                    f"{'directory' if is_dir else 'non-directory'} input"))
        for k, d_ in problems:
            res.fail(k, d_ + f"; full argv {logged[0]}")
        # direct CLI run with the documented argv (own output directory)
        direct_argv = [in_arg] + (["-r"] if is_dir else []) + extras + ["-o", out_cli]
        d = S.run_main(direct_argv, cwd=work, cfgdir=sb.path("cfg"))
        direct_failed = d.code != 0 or d.exc is not None
        cm_failed = p.returncode != 0
        if direct_failed != cm_failed:
            res.fail("failure-not-propagated" if direct_failed else "cmake-fails-but-cli-succeeds",
                     f"direct run exit={d.code} exc={d.exc!r}; cmake exit={p.returncode}: {p.stderr[-200:]!r}")
        if os.path.exists(marker) != (not direct_failed):
            res.fail("configure-continues-after-failure" if direct_failed else "marker-missing-after-success",
                     f"marker exists={os.path.exists(marker)}, direct run failed={direct_failed}")
        t_cm = S.read_tree(os.path.join(work, n_cm)) if os.path.isdir(os.path.join(work, n_cm)) else {}
        t_cli = S.read_tree(os.path.join(work, n_cli)) if os.path.isdir(os.path.join(work, n_cli)) else {}
        if t_cm != t_cli:
            only = sorted(set(t_cm) ^ set(t_cli))
            diff = [k for k in t_cm if k in t_cli and t_cm[k] != t_cli[k]]
            res.fail("output-tree-differs", f"only in one: {only[:4]}; different bytes: {diff[:4]}")
        if in_known_region(case):
            res.labels.append("in-known-region-P19")
        res.labels += ["input:" + kind, "relative-input" if case["relative"] else "absolute-input",
                       f"extras:{len(case['extras'])}", "direct-run-failed" if direct_failed else "direct-run-ok"]
        res.labels += ["extra:" + f for f, _ in case["extras"]]
        res.nontrivial = bool(case["extras"]) or direct_failed
        if res.nontrivial:
            res.sample = {"input": kind, "argv_logged": [a.replace(sb.root, "<sb>") for a in logged[0]],
                          "cmake_exit": p.returncode, "direct_exit": d.code, "files_written": sorted(t_cm)}
    return res


def describe(case):
    return {k: v for k, v in case.items() if k != "tree"}
