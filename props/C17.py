"""C17 Output is a function of contents, relative paths and settings only (histories, metamorphic)."""
import copy
import os
import shutil
import subprocess
import sys

from hypothesis import strategies as st

from vlib import SRC, gen_tree as T, sandbox as S
from vlib.harness import Result, HarnessError
from .common import exc_key

ID = "C17"
LEVEL = "exploration"
RULE = ("a tree (directory input, recursive) or a lone file + settings (prefix, extension options, strip patterns, location-independent exclude patterns) and a history of 2..5 "
        "further runs drawn from {same again; other cwd with the input spelled relative ('in', './in/', '../x/in', '.' from "
        "inside) or absolute; whole tree moved to another absolute location with the same directory name; another "
        "directory-listing permutation; another PYTHONHASHSEED (real subprocess); the input documented together with 1..3 "
        "other generated inputs before and/or after it in one main() call; successive cminx.document() calls in one process "
        "with one Settings object}; oracle: the bytes of every file generated for the input under test are identical in "
        "all runs (paths written by several inputs, i.e. the shared top index.rst, are excluded and counted). "
        "Non-trivial: the history has >=2 different variation kinds, one of them moved tree / relative spelling / other "
        "inputs before; distinct by SHA-1 of the case")
RULE_MORE = 'location-independent exclude patterns and follow_symlinks with an aliased subdirectory as part of the settings. Later: whitespace-twin prefill; location through a symlinked parent and below directories with regex metacharacters; an undocumented twin of a tree file documented first; (round 10) pattern lists with re-including negations (their order matters).'
ASSUMPTIONS = ["other inputs use names disjoint from the input under test so that every output path has one producer",
               "hash-seed runs use the real interpreter as a subprocess; all other runs are in-process"]
BUDGET = {"quick": {"shards": 8, "examples": 50}, "thorough": {"shards": 16, "examples": 800}}

STEPS = ["prefilled-whitespace-twin", "via-symlinked-parent", "prefilled-output", "cwd-inside-sub", "same", "cwd-rel", "cwd-dotslash", "cwd-updown", "cwd-dot", "moved", "order", "hashseed", "others-before",
         "others-after", "others-both", "api-successive"]


def strategy(tier):
    depth = 2 if tier == "quick" else 3
    step = st.tuples(G_weighted_steps(), st.lists(st.integers(0, 11), min_size=1, max_size=6), st.integers(1, 3))
    return st.fixed_dictionaries({
        "tree": T.dir_tree(depth, max_files=3, max_dirs=2, mixed_case=True, force_cmake_top=True),
        "lone": st.sampled_from([False, False, True]),
        "prefix": st.sampled_from([None, None, "pfx"]),
        "ext": st.booleans(),
        "strip": st.sampled_from(["", "^_", "^_"]),
        # location-independent exclusion patterns are settings like any other (none matches a sandbox ancestor)
        "excl": st.sampled_from([None, None, ["*.cmake", "!a.cmake", "!zeta.cmake", "!x.cmake", "!b.cmake"], ["pre_*", "!pre_one.cmake", "?x.cmake", "!bx.cmake"], ["pre_*"], ["?x.cmake", "d?/"], ["a.cmake", "zeta.cmake"], ["*.CMAKE", "sub/"],
                                 ["a.cmake", "b.cmake", "ax.cmake", "bx.cmake", "d.cmake"]]),
        "history": st.lists(step, min_size=2, max_size=5),
        # a symbolic link to the first subdirectory, followed (input.follow_symlinks) or not
        "alias": st.sampled_from([None, None, "follow", "nofollow"]),
        # a subdirectory with several hundred entries, its only CMake file sorting last
        "bigdir": st.sampled_from([False, False, False, True]),
        # sibling directories whose files end in a pending declaration / start with an undocumented definition, and a
        # directory in which a commonly excluded file sits next to files that stay
        "neighbours": st.sampled_from([False, True, False]),
    })


def G_weighted_steps():
    from vlib import gen_cmake as G
    return G.weighted((2, st.sampled_from(["prefilled-whitespace-twin", "prefilled-output", "same", "order"])),
                      (5, st.sampled_from(["via-symlinked-parent", "cwd-rel", "cwd-dotslash", "cwd-updown", "cwd-dot", "moved", "cwd-inside-sub"])),
                      (3, st.sampled_from(["others-before", "others-after", "others-both", "api-successive"])),
                      (2, st.just("hashseed")))      # a fresh interpreter: also the only run free of state earlier cases left behind


def other_inputs(sb, n, tag, twin_of=None):
    """n other inputs with names disjoint from the tree under test.  twin_of: text of a file of the tree under test;
    a copy whose doccomments are turned into ordinary bracket comments (same commands at the same lines and columns,
    without documentation) is documented first."""
    out = []
    if twin_of:
        p = sb.path("else", f"zz_twin_{tag}.cmake")
        with open(p, "w") as f:
            f.write(twin_of.replace("#[[[", "#[[ "))
        out.append(p)
    for i in range(n):
        if i % 2 == 0:
            p = sb.path("else", f"zz_other_{tag}_{i}.cmake")
            with open(p, "w") as f:
                f.write(T.CONTENTS[i % len(T.CONTENTS)].replace("@", f"9{i}"))
            out.append(p)
        else:
            d = sb.path("else", f"zz_otherdir_{tag}_{i}")
            os.makedirs(os.path.join(d, f"zz_sub_{tag}"), exist_ok=True)
            # same base names as files of the tree under test, but under a directory name of their own
            for j, name in enumerate([f"zz_m{tag}{i}.cmake", f"zz_sub_{tag}/zz_n{tag}{i}.cmake", f"zz_sub_{tag}/a.cmake",
                                      f"zz_sub_{tag}/{T.CMAKE_NAMES[i % len(T.CMAKE_NAMES)]}"]):
                with open(os.path.join(d, name), "w") as f:
                    f.write(T.CONTENTS[(i + j) % len(T.CONTENTS)].replace("@", f"8{i}{j}"))
            out.append(d)
    return out


def evaluate(case):
    import cminx
    res = Result()
    raw = case["tree"]
    if case.get("neighbours") and not case["lone"]:
        raw = {"files": raw["files"], "dirs": dict(raw["dirs"], **{
            "zd1": {"files": {"z_pending.cmake": 8}, "dirs": {}},
            "zd2": {"files": {"a_first.cmake": 1}, "dirs": {}},
            "zd3": {"files": {"a_first.cmake": 9}, "dirs": {}},
            "zd4": {"files": {"a.cmake": 0, "pre_one.cmake": 2, "ax.cmake": 1, "zz_keep.cmake": 3}, "dirs": {}}})}
    tree = T.fill(T.ensure_lowercase_cmake(raw))
    files = [p for p, _ in S.tree_files(tree) if T.is_cmake(os.path.basename(p))]
    top_files = sorted(n for n in tree["files"] if n.endswith(".cmake"))
    kinds = [h[0] for h in case["history"]]
    with S.Sandbox("c17") as sb:
        home = sb.path("loc1", "in")
        S.materialize(tree, home)
        if case.get("bigdir") and not case["lone"]:
            big = os.path.join(home, "zz_vendor")
            os.makedirs(big)
            for k in range(700):
                open(os.path.join(big, f"src_{k:04d}.c"), "w").close()
            with open(os.path.join(big, "zzz_last.cmake"), "w") as f:
                f.write("function(vendor_fn a)\nendfunction()\n")
        cfg = sb.path("settings.yaml")
        with open(cfg, "w") as f:
            f.write("rst:\n  file_extensions_in_titles: %s\n" % ("true" if case["ext"] else "false"))
            alias = case.get("alias") if (tree["dirs"] and not case["lone"]) else None
            if alias:
                os.symlink(sorted(tree["dirs"])[0], os.path.join(home, "zz_alias"))
                os.symlink(sorted(tree["dirs"])[0], os.path.join(home, "zz_alias2"))
            if case.get("strip") or case.get("excl") or alias:
                f.write("input:\n")
            if alias:
                f.write("  follow_symlinks: %s\n" % ("true" if alias == "follow" else "false"))
            if case.get("strip"):
                f.write("  function_parameter_name_strip_regex: %r\n  macro_parameter_name_strip_regex: %r\n"
                        % (case["strip"], case["strip"]))
            if case.get("excl"):
                f.write("  exclude_filters:\n" + "".join(f"    - {p!r}\n" for p in case["excl"]))
        lone = case["lone"]
        target_rel = top_files[0] if lone else ""

        def args_for(input_arg, out):
            a = [input_arg, "-o", out, "-s", cfg]
            if not lone:
                a.append("-r")
            if case["prefix"]:
                a += ["-p", case["prefix"]]
            return a

        def input_abs(base):
            return os.path.join(base, target_rel) if lone else base

        def run(argv, cwd, order=None):
            r = S.run_main(argv, cwd=cwd, order=order)
            if r.exc is not None or r.code != 0:
                raise RuntimeError(exc_key(r.exc) if r.exc else f"exit-{r.code}")

        out0 = sb.path("out0")
        try:
            run(args_for(input_abs(home), out0), sb.path("cwd"))
        except RuntimeError as e:
            res.fail("baseline:" + str(e), "baseline run failed")
            return res
        base = S.read_tree(out0)
        shared_excluded = 0
        for i, (kind, order, n) in enumerate(case["history"]):
            out = sb.path(f"out{i + 1}")
            multi = False
            try:
                if kind == "prefilled-output":
                    # a used output directory: every file of the baseline is already there, longer and different
                    for path, data in base.items():
                        pth = os.path.join(out, path)
                        os.makedirs(os.path.dirname(pth), exist_ok=True)
                        with open(pth, "wb") as fh:
                            fh.write(b"STALE\n" + data + b"\nstale tail line\n" * 40)
                    run(args_for(input_abs(home), out), sb.path("cwd"))
                elif kind == "prefilled-whitespace-twin":
                    # the output already holds pages that differ from the new ones in white space only
                    for path, data in base.items():
                        pth = os.path.join(out, path)
                        os.makedirs(os.path.dirname(pth), exist_ok=True)
                        with open(pth, "wb") as fh:
                            fh.write(b"\n".join(l.strip() for l in data.split(b"\n") if l.strip()) + b"\n")
                    run(args_for(input_abs(home), out), sb.path("cwd"))
                elif kind == "via-symlinked-parent":
                    # the absolute location of the tree contains a symbolic link (a linked parent directory)
                    lnk = sb.path("else", f"lnk{i}")
                    os.symlink(sb.path("loc1"), lnk)
                    run(args_for(input_abs(os.path.join(lnk, "in")), out), sb.path("cwd"))
                elif kind == "same":
                    run(args_for(input_abs(home), out), sb.path("cwd"))
                elif kind == "order":
                    run(args_for(input_abs(home), out), sb.path("cwd"), order=order)
                elif kind == "cwd-rel":
                    run(args_for(os.path.join("in", target_rel) if lone else "in", out), sb.path("loc1"))
                elif kind == "cwd-dotslash":
                    run(args_for("./in/" + target_rel if lone else "./in/", out), sb.path("loc1"))
                elif kind == "cwd-updown":
                    os.makedirs(sb.path("loc1", "x"), exist_ok=True)
                    run(args_for("../x/../in/" + target_rel if lone else "../x/../in", out), sb.path("loc1", "x"))
                elif kind == "cwd-dot":
                    run(args_for("./" + target_rel if lone else ".", out), home)
                elif kind == "cwd-inside-sub":
                    subs = sorted(tree["dirs"])
                    if subs:
                        run(args_for("../" + target_rel if lone else "..", out), os.path.join(home, subs[n % len(subs)]))
                    else:
                        run(args_for("./" + target_rel if lone else ".", out), home)
                elif kind == "moved":
                    # the new absolute location has characters that are special in regular expressions and glob patterns
                    dst = sb.path("else", f"moved{i}", ["deeper", "g++ (2) [1]", "a.b*c", "x^y$z"][n % 4 if i % 2 else 1], "in")
                    shutil.copytree(home, dst, symlinks=True)
                    run(args_for(input_abs(dst), out), sb.path("cwd"), order=order if n == 2 else None)
                elif kind == "hashseed":
                    env = dict(os.environ, PYTHONHASHSEED=str(100 + n * 7 + i), CMINXDIR=sb.path("cfg"), HOME=sb.path("cfg"),
                               XDG_CONFIG_HOME=sb.path("cfg"))
                    code = f"import sys; sys.path.insert(0, {SRC!r}); import warnings; warnings.simplefilter('ignore'); " \
                           f"import cminx; cminx.main(sys.argv[1:])"
                    p = subprocess.run([sys.executable, "-c", code] + args_for(input_abs(home), out), cwd=sb.path("cwd"),
                                       env=env, capture_output=True)
                    if p.returncode != 0:
                        raise RuntimeError(f"subprocess-exit-{p.returncode}")
                elif kind in ("others-before", "others-after", "others-both"):
                    multi = True
                    twin = next((t for pth, t in S.tree_files(tree) if T.is_cmake(os.path.basename(pth)) and "#[[[" in t), None)
                    before = other_inputs(sb, n, f"b{i}", twin if n != 2 else None) if kind in ("others-before", "others-both") else []
                    after = other_inputs(sb, n, f"a{i}") if kind in ("others-after", "others-both") else []
                    argv = args_for(input_abs(home), out)
                    argv = before + [argv[0]] + after + argv[1:]
                    run(argv, sb.path("cwd"), order=order if n == 3 else None)
                elif kind == "api-successive":
                    multi = True
                    captured = []
                    orig = cminx.document
                    cminx.document = lambda f, s: captured.append(s)
                    try:
                        S.run_main(args_for(input_abs(home), out), cwd=sb.path("cwd"))
                    finally:
                        cminx.document = orig
                    if len(captured) != 1:
                        raise HarnessError("could not capture the Settings object")
                    settings = captured[0]
                    others = other_inputs(sb, n, f"s{i}")
                    import io, contextlib
                    with contextlib.redirect_stdout(io.StringIO()), contextlib.redirect_stderr(io.StringIO()):
                        for o in others:
                            cminx.document(o, settings)
                        cminx.document(input_abs(home), settings)
                        if n >= 2:
                            cminx.document(input_abs(home), settings)     # and once more: must be idempotent
                else:
                    raise HarnessError(kind)
            except RuntimeError as e:
                res.fail(f"run-failed:{kind}:{e}", f"history step {i} ({kind})")
                continue
            got = S.read_tree(out) if os.path.isdir(out) else {}
            for path, data in base.items():
                if multi and path == "index.rst" and not lone and kind != "others-before":
                    shared_excluded += 1
                    continue
                if path not in got:
                    res.fail(f"file-missing:{kind}", f"step {i} ({kind}): {path} not generated")
                elif got[path] != data:
                    a = data.decode("utf-8", "replace").split("\n")
                    b = got[path].decode("utf-8", "replace").split("\n")
                    j = 0
                    while j < min(len(a), len(b)) and a[j] == b[j]:
                        j += 1
                    what = "index" if path.endswith("index.rst") else "page"
                    res.fail(f"bytes-differ:{kind}:{what}", f"step {i} ({kind}): {path} line {j}: "
                                                            f"{a[j] if j < len(a) else '<end>'!r} vs {b[j] if j < len(b) else '<end>'!r}")
            if not multi:
                for path in got:
                    if path not in base:
                        res.fail(f"extra-file:{kind}", f"step {i} ({kind}): {path} generated only in this run")
        res.labels += ["step:" + k for k in kinds]
        res.labels.append("input:" + ("lone-file" if lone else "directory"))
        if case.get("excl"):
            res.labels.append("settings:exclude-patterns")
        if alias:
            res.labels.append("symlinked-directory:" + alias)
        if case.get("bigdir") and not case["lone"]:
            res.labels.append("directory-with-700-entries")
        if case.get("neighbours") and not case["lone"]:
            res.labels.append("neighbour-directories-with-pending-declarations")
        if shared_excluded:
            res.labels.append("shared-top-index-excluded")
        special = {"prefilled-whitespace-twin", "via-symlinked-parent", "prefilled-output", "cwd-inside-sub", "moved", "cwd-rel", "cwd-dotslash", "cwd-updown", "cwd-dot", "others-before", "others-both", "api-successive"}
        res.nontrivial = len(set(kinds)) >= 2 and bool(set(kinds) & special)
        if res.nontrivial:
            res.sample = {"files": files, "lone": lone, "prefix": case["prefix"], "history": [h[0] for h in case["history"]]}
    return res


def describe(case):
    tree = T.fill(T.ensure_lowercase_cmake(case["tree"]))      # (without the 'neighbours' directories)
    return {"files": [p for p, _ in S.tree_files(tree)], "lone": case["lone"], "prefix": case["prefix"], "ext": case["ext"],
            "history": case["history"]}
