"""C01 Doccomment text reaches the output verbatim."""
import os

from hypothesis import strategies as st

from vlib import gen_cmake as G, render as R, model as M, rstview as V
from vlib.cminx_run import document_text, real_settings, run_main, scratch_dir
from vlib.harness import Result, digest
from .common import exc_key, short

ID = "C01"
LEVEL = "exploration"
RULE = ("modules of documentable items of every kind (nesting <=3, optional @module doccomment); every doccomment has "
        "0..8 (thorough 0..30) lines of arbitrary printable Unicode (weighted towards lines starting with # [ ] : .. * @ | "
        "or spaces, ending in spaces, empty), no ']]', canonical form, block indented by a drawn run of spaces/tabs "
        "(0..12), leader-less form only unindented with lines starting with a letter; oracle = construction knowledge: "
        "inside the block of the owning entry the lines indent+Li occur as one contiguous run, once, in order; the "
        "doc's unique marker occurs nowhere else. Non-trivial: a doc with >=2 lines and one of {line starting with "
        "'#','[',']', leading spaces, non-ASCII, tab in the block indentation, nesting depth>=1, empty line}; "
        "distinct by SHA-1 of the case")
RULE_MORE = "doccomments on implementing definitions; body lines repeating the text of the opening line ('@module ...', '#[[['); 4 (thorough 32) modules of hundreds of items per run (item list tiled 25..45 times). Later: strip patterns drawn; ruler lines; the first declared parameter placed in doc text; (round 10) the kwargs trigger string configured (`@kwargs`, `KWARGS`) and doc lines consisting of it."
ASSUMPTIONS = ["sources are UTF-8 without BOM", "a whitespace-only output line stands for a blank doc line",
               "the entry that owns a doccomment is located with the reference model validated by C02"]
BUDGET = {"quick": {"shards": 4, "examples": 350}, "thorough": {"shards": 16, "examples": 5000}}

_printable = st.one_of(
    st.characters(exclude_categories=["Cc", "Cf", "Cs", "Co", "Cn", "Zl", "Zp", "Zs"]),
    st.characters(min_codepoint=32, max_codepoint=126),
    st.characters(min_codepoint=32, max_codepoint=126),
    st.just(" "),
)


def _no_close(s):
    while "]]" in s:
        s = s.replace("]]", "] ]")
    return s


def _line(maxlen):
    body = st.text(alphabet=_printable, max_size=maxlen)
    start = st.sampled_from(["#", "##", "[", "]", "[[", ":", "..", ".. note::", "  ", " ", "    ", "*", "@", "|", "#]", "# ",
                             ":param x:", "-", ">>>", "\\", "é", "漢", "`", "::", "[[[", ":type <<P0>>:", ":param <<P0>>:", ":type <<P0>>: "])
    tail = st.sampled_from(["", "", " ", "   ", "#", "]", "\\"])
    return st.one_of(
        st.just(""),
        st.sampled_from(["<<TRIG>>", ":type <<P0>>:", ":param <<P0>>:", ":type <<P0>>: ", ":type <<P0>>: given", ":returns:", "  <<TRIG>>", "<<TRIG>> opts: more"]),
        # the text of the doccomment's own opening line, again, alone or at the end of a body line
        # long lines with leading blanks (relative indentation of continuation lines, code samples)
        st.sampled_from(["    an indented continuation line that is definitely longer than forty characters",
                         "  set(EXAMPLE_VARIABLE \"a value in a code sample that makes the line long\")",
                         " one leading blank, and then enough words to pass any length threshold one might think of"]),
        # ruler / banner lines
        st.sampled_from(["=====", "    ----", "~~~~~~~~", "****", "++++", "^^^^", "____", "==== ====", "#####", "-=-=-=-"]),
        st.sampled_from(["<<HDR>>", "Files are tagged with <<HDR>>", "<<HDR>> once more", "#[[[", "#]", "#[[[ <<HDR>>"]),
        body,
        st.builds(lambda a, b, c: a + b + c, start, body, tail),
        st.builds(lambda a, b, c: a + b + c, start, body, tail),
    ).map(_no_close).filter(lambda s: s.isprintable())


def unicode_doc(max_lines, maxlen):
    letter_line = st.builds(lambda a, b: a + b, st.sampled_from(list("AbcXyzZ")), st.text(alphabet=_printable, max_size=maxlen)) \
        .map(_no_close).filter(lambda s: s.isprintable())
    leader = st.fixed_dictionaries({
        "lines": st.lists(_line(maxlen), max_size=max_lines),
        "form": st.just("leader"),
        "mpos": st.integers(0, 40),
        "indent": st.one_of(st.just(""), st.text(alphabet=" \t", max_size=12), st.sampled_from(["  ", "\t", "    "])),
    })
    bare = st.fixed_dictionaries({
        "lines": st.lists(letter_line, min_size=1, max_size=max_lines),
        "form": st.just("bare"),
        "mpos": st.integers(0, 40),
        "indent": st.just(""),
    })
    return G.weighted((3, leader), (1, bare))


def strategy(tier, repeat=None):
    ml, mx = (8, 60) if tier == "quick" else (30, 200)
    doc = unicode_doc(ml, mx)
    p = G.Profile(doc=doc, p_doc_mostly=True, max_items=6 if tier == "quick" else 8, depth=3, dangling=False, dups=True, impl_doc=True, weights={"class": 2},
                  body_max=3, moddoc_indent=st.one_of(st.just(""), st.just(""), st.text(alphabet=" \t", max_size=12)))
    if repeat is not None:
        p.p_doc_mostly = True
    return st.fixed_dictionaries({"module": G.module(p, repeat), "layout": G.layout_choices(24),
                                  # parameter-name strip patterns (they shape signatures; doc text stays as written)
                                  "strip": st.sampled_from(["", "", "^[a-z]", "^_?[a-zA-Z]+_", "[0-9]+$"]),
                                  # the configured kwargs trigger string; doc lines may consist of it alone
                                  "trig": st.sampled_from([":keyword", "@kwargs", ":keyword", "KWARGS", "\\kwargs"])})


def _owners(module):
    """[(doc, entry index among top-level entries, indentation level)] using the reference model."""
    exp = M.expected(module)
    by_marker = {}
    for i, e in enumerate(exp):
        if e.get("marker"):
            by_marker[e["marker"]] = (i, 1)
        for grp in ("ctors", "methods", "attrs"):
            for m in e.get(grp) or []:
                if m.get("marker"):
                    by_marker[m["marker"]] = (i, 2)
    return exp, by_marker


def check_text(module, text, res, tag=""):
    exp, by_marker = _owners(module)
    blocks = V.top_blocks(text)
    mod_blocks = [b for b in blocks if b[0] == "module"]
    ent_blocks = [b for b in blocks if b[0] != "module"]
    if len(ent_blocks) != len(exp):
        res.fail(tag + "entry-count", f"{len(ent_blocks)} top-level blocks for {len(exp)} expected entries")
        return

    def check_doc(lines, marker, block_lines, level, what, extra=0):
        pref = " " * (3 * level)
        hits = [i for i, l in enumerate(block_lines) if marker in l]
        if len(hits) == 1 + extra and extra:
            hits = hits[:1]         # the doc text comes first; the other occurrence is the option's own help text
        if len(hits) != 1:
            res.fail(tag + "marker-in-own-block", f"{what}: marker {marker} occurs {len(hits)} times in its block")
            return
        mi = next(i for i, l in enumerate(lines) if marker in l)
        start = hits[0] - mi
        if start < 0 or start + len(lines) > len(block_lines):
            res.fail(tag + "run-truncated", f"{what}: doc run does not fit in the block")
            return
        for off, want in enumerate(lines):
            got = block_lines[start + off]
            if want.strip() == "":
                if got.strip() != "":
                    res.fail(tag + "blank-line", f"{what}: line {off}: expected blank got {got!r}")
                    return
            elif got != pref + want:
                sub = "line-text"
                if got.strip() == want.strip():
                    sub = "line-indent"
                elif got.rstrip() == (pref + want).rstrip():
                    sub = "line-trailing-space"
                res.fail(tag + sub, f"{what}: line {off}: expected {pref + want!r} got {got!r}")
                return
        if text.count(marker) != 1 + extra:
            res.fail(tag + "marker-elsewhere", f"{what}: marker {marker} occurs {text.count(marker)} times in the page")

    def check_shared(lines, marker, block_lines, level, what):
        """The class and one of its members carry the same doccomment: it must occur twice in the class block,
        first with the class's indentation, then with the member's."""
        pref = " " * (3 * level)
        hits = [i for i, l in enumerate(block_lines) if marker in l]
        if len(hits) != 2 or text.count(marker) != 2:
            res.fail(tag + "marker-in-own-block", f"{what}: shared marker {marker} occurs {len(hits)} times in the block")
            return
        mi = next(i for i, l in enumerate(lines) if marker in l)
        start = hits[level - 1] - mi
        for off, want in enumerate(lines):
            got = block_lines[start + off] if 0 <= start + off < len(block_lines) else None
            if want.strip() == "":
                if got is None or got.strip() != "":
                    res.fail(tag + "blank-line", f"{what}: line {off}: expected blank got {got!r}")
                    return
            elif got != pref + want:
                res.fail(tag + ("line-indent" if got is not None and got.strip() == want.strip() else "line-text"),
                         f"{what}: line {off}: expected {pref + want!r} got {got!r}")
                return

    md = module.get("moddoc")
    if md is not None and md.get("marker"):
        if len(mod_blocks) != 1:
            res.fail(tag + "module-block", f"{len(mod_blocks)} module directives")
        else:
            check_doc(md["lines"], md["marker"], mod_blocks[0][2], 1, "module doc")
    for it, depth, parent in G.walk(module["items"]):
        d = it.get("doc")
        if not d or not d.get("marker") or it["k"] == "dangling":
            continue
        if d["marker"] not in by_marker:
            continue        # e.g. member of a class that the model does not show (cannot happen with defaults)
        idx, level = by_marker[d["marker"]]
        extra = 1 if it["k"] == "option" and d["marker"] in it.get("help", "") else 0
        shared = [x for x, _, _ in G.walk(module["items"]) if x.get("doc") and x["doc"].get("marker") == d["marker"]]
        if len(shared) == 2:
            check_shared(d["lines"], d["marker"], ent_blocks[idx][2], 1 if it["k"] == "class" else 2, f"{it['k']} #{idx} (shared doc)")
            continue
        check_doc(d["lines"], d["marker"], ent_blocks[idx][2], level, f"{it['k']} #{idx}", extra)
    # a doccomment on the definition that implements a member/test declaration: the definition is a documented command
    for it, depth, parent in G.walk(module["items"]):
        d = it["impl"].get("doc") if "impl" in it else None
        if d and d.get("marker") and d["marker"] in by_marker:
            idx, level = by_marker[d["marker"]]
            check_doc(d["lines"], d["marker"], ent_blocks[idx][2], level, f"implementing definition of {it['k']} #{idx}")


def nontrivial(module):
    docs = [(it["doc"], depth) for it, depth, _ in G.walk(module["items"]) if it.get("doc")]
    if module.get("moddoc"):
        docs.append((module["moddoc"], 0))
    labels = set()
    nt = False
    for d, depth in docs:
        lines = d["lines"]
        feats = set()
        if any(l[:1] in "#[]" and l for l in lines):
            feats.add("leaderset-start")
        if any(l.startswith(" ") and l.strip() for l in lines):
            feats.add("leading-spaces")
        if any(not l.isascii() for l in lines):
            feats.add("non-ascii")
        if "\t" in (d.get("indent") or ""):
            feats.add("tab-indent")
        if d.get("indent"):
            feats.add("indented-block")
        if depth >= 1:
            feats.add("nested")
        if any(l == "" for l in lines):
            feats.add("empty-line")
        if d.get("form") == "bare":
            feats.add("leaderless")
        labels |= feats
        if len(lines) >= 2 and feats - {"indented-block", "leaderless"}:
            nt = True
    return nt, labels


def prepare(module, trig=":keyword"):
    """'<<P0>>' in a doc line stands for the first parameter of the implementing definition (members) or 'x'."""
    import copy
    mod = copy.deepcopy(module)
    for it, _, parent in G.walk(mod["items"]):
        if it["k"] in ("member", "attr") and parent is not None and parent["k"] == "class" and parent.get("doc") and it.get("doc") \
                and parent["doc"].get("marker") and len(parent["doc"]["lines"]) >= 2 and \
                int("".join(ch for ch in parent["doc"]["marker"] if ch.isdigit()) or 0) % 2 == 0 and not parent.get("_shared"):
            it["doc"] = copy.deepcopy(parent["doc"])        # identical text, one level deeper
            it["doc"]["shared"] = True
            parent["_shared"] = True
    for it, _, _ in G.walk(mod["items"]):
        it.pop("_shared", None)
        d = it.get("doc")
        if d:
            p0 = it["impl"]["params"][0] if it["k"] == "member" and it["impl"]["params"] else \
                it["params"][0] if it["k"] == "func" and it["params"] and it["params"][0].isidentifier() else "x"
            d["lines"] = [l.replace("<<P0>>", p0).replace("<<HDR>>", "@module").replace("<<TRIG>>", trig) for l in d["lines"]]
        di = it["impl"].get("doc") if "impl" in it else None
        if di:
            di["lines"] = [l.replace("<<P0>>", "x").replace("<<HDR>>", "@module").replace("<<TRIG>>", trig) for l in di["lines"]]
        if it["k"] == "option" and d and d.get("marker") and int("".join(ch for ch in d["marker"] if ch.isdigit()) or 0) % 3 == 0:
            # the help string repeats the doccomment word for word
            words = " ".join(l.strip() for l in d["lines"] if l.strip())
            if words and '"' not in words and "\\" not in words and "$" not in words and ";" not in words:
                it["help"] = '"' + words + '"'
    if mod.get("moddoc"):
        hdr = "@module" + (" " + mod["moddoc"]["name"] if mod["moddoc"].get("name") else "")
        mod["moddoc"]["lines"] = [l.replace("<<P0>>", "x").replace("<<HDR>>", hdr).replace("<<TRIG>>", trig) for l in mod["moddoc"]["lines"]]
    return mod


def extra(ctx):
    """A few modules of hundreds of items: the drawn item list is tiled 25..45 times, every copy with names of its own."""
    from .common import large_campaign
    large_campaign(ctx, strategy("quick", repeat=st.integers(25, 45)), evaluate, 4 if ctx.tier == "quick" else 32)


def evaluate(case):
    module, layout = prepare(case["module"], case.get("trig") or ":keyword"), case["layout"]
    res = Result()
    src = R.render(module, layout)
    nt, labels = nontrivial(module)
    res.nontrivial = nt
    res.labels += sorted(labels)
    if module.get("moddoc"):
        res.labels.append("module-doc")
    if any("impl" in it and it["impl"].get("doc") for it, _, _ in G.walk(module["items"])):
        res.labels.append("doc-on-implementing-definition")
    if any(it.get("doc") and it["doc"].get("shared") for it, _, _ in G.walk(module["items"])):
        res.labels.append("same-doc-on-class-and-member")
    if nt:
        res.sample = {"source": short(src, 700)}
    strip = case.get("strip") or ""
    if strip:
        res.labels.append("strip-pattern-configured")
    run = document_text(src, real_settings(M.MSettings(trigger=case.get("trig") or ":keyword", strip_function=strip, strip_macro=strip, strip_member=strip)))
    if run.exc is not None:
        res.fail(exc_key(run.exc), repr(run.exc)[:300])
        return res
    check_text(module, run.text, res)
    # file written by `cminx -o` for a deterministic sample of cases (encoding round trip)
    if int(digest(case)[:2], 16) % 8 == 0:
        res.labels.append("via-cli-file")
        d = os.path.join(scratch_dir(), "c01")
        os.makedirs(d, exist_ok=True)
        path = os.path.join(d, "unit.cmake")
        with open(path, "wb") as f:
            f.write(src.encode("utf-8"))
        out = os.path.join(d, "out")
        mr = run_main(["-o", out, path])
        if mr.code != 0 or mr.exc is not None:
            res.fail("cli:" + (exc_key(mr.exc) if mr.exc else f"exit-{mr.code}"), (mr.stderr or "")[-300:])
        else:
            try:
                with open(os.path.join(out, "unit.rst"), "rb") as f:
                    text = f.read().decode("utf-8")
                check_text(module, text, res, tag="file:")
            except Exception as e:
                res.fail("file:unreadable:" + type(e).__name__, repr(e))
    return res


def describe(case):
    return {"source": R.render(prepare(case["module"], case.get("trig") or ":keyword"), case["layout"])}
