"""C03 Function and macro signatures mirror the definition."""
import copy
import re

from hypothesis import strategies as st

from vlib import gen_cmake as G, render as R, model as M, rstview as V, compare as C
from vlib.cminx_run import document_text, real_settings
from vlib.harness import Result
from .common import exc_key, short

ID = "C03"
LEVEL = "exploration"
RULE = ("modules of function/macro definitions (0..4 parameters in all single-argument forms, nested to depth 3-4, "
        "documented or not) with cmake_parse_arguments placed directly in bodies, inside if/foreach/while blocks, in "
        "nested definitions, in member/test implementations, between definitions and at file level; drawn settings: "
        "trigger string from a pool (placed in some doccomments, near-misses in others), independent strip patterns "
        "for function/macro/member; oracle = reference model: `.. function::` argument == name(stripped params "
        "[**kwargs]). Non-trivial: >=2 definitions, and (a cmake_parse_arguments that is not directly in a top-level "
        "definition's body, or a non-empty strip pattern that matches a definition name or a parameter); distinct by "
        "SHA-1 of the case")
RULE_MORE = 'nested definitions that repeat their undocumented enclosing definition exactly, followed by a cmake_parse_arguments in the outer body; large modules as in C01. Later: parameters with non-ASCII letters; doccommented cmake_parse_arguments calls; patterns with \\w / \\W.'
ASSUMPTIONS = ["Python's re computes the expected stripping (the regex engine is not under test)",
               "trigger strings are non-empty and free of ']]'"]
BUDGET = {"quick": {"shards": 4, "examples": 300}, "thorough": {"shards": 16, "examples": 4000}}

TRIGGERS = [":keyword", ":param **kwargs:", "KW", ":keyword ", " kw", "k  w", "キーワード", "a.b*c", "(kw)", ":keyword x:", "$"]
PATTERNS = ["", "", "^\\w+?_", "\\W+$", "(?i)^[a-zé]", "^[^_]*_", "[^a-z]+", "[^A-Za-z0-9_]+", "\\W", "\\A_", "_\\Z", "(?s).$", "^_", "_$", "^[a-z]{1,3}_", "[0-9]+", "^(in|out)_", "(?i)^arg_", ".*", "^fn_", "a", "_name$", "^\"|\"$"]


def _doc():
    line = st.one_of(G.benign_line(), G.benign_line(), st.just(""),
                     st.sampled_from(["Uses <<TRIG>> here.", "<<TRIG>>", "Almost <<NEAR>> only.", ":param x: Something.",
                                      "Text <<TRIG>><<TRIG>> twice.", "Case <<SWAP>> differs.",
                                      "Spaced <<SPACED>> out."]))
    return st.fixed_dictionaries({"lines": st.lists(line, max_size=4), "form": st.sampled_from(["leader", "leader", "bare"]),
                                  "mpos": st.integers(0, 8)})


def strategy(tier, repeat=None):
    p = G.Profile(doc=_doc(), max_items=6 if tier == "quick" else 10, depth=3 if tier == "quick" else 4,
                  kinds={"func", "parseargs", "block", "generic", "set", "class", "member", "test", "section"},
                  dangling=False, groups=False, impl_doc=True, nest_all=True, dups=True)
    if repeat is not None:
        p.p_doc_mostly = True
    return st.fixed_dictionaries({
        "module": G.module(p, repeat), "layout": G.layout_choices(24),
        "settings": st.fixed_dictionaries({
            "trigger": st.sampled_from(TRIGGERS),
            "strip": st.fixed_dictionaries({"function": st.sampled_from(PATTERNS), "macro": st.sampled_from(PATTERNS),
                                            "member": st.sampled_from(PATTERNS)})}),
    })


def prepare(case):
    trig = case["settings"]["trigger"]
    near = trig[:-1] if len(trig) > 1 else "x"
    mod = copy.deepcopy(case["module"])

    def fix(d):
        if d:
            swap = trig.swapcase() if trig.swapcase() != trig else near
            spaced = " ".join(trig) if len(trig) > 1 else near
            d["lines"] = [l.replace("<<TRIG>>", trig).replace("<<NEAR>>", near).replace("<<SWAP>>", swap)
                          .replace("<<SPACED>>", spaced) for l in d["lines"]]
            if d.get("form") == "bare" and not all(l == "" or l[0].isalpha() for l in d["lines"]):
                d["form"] = "leader"
    n = 0
    for it, _, _ in G.walk(mod["items"]):
        fix(it.get("doc"))
        if it["k"] == "parseargs":
            n += 1
            if n % 3 == 0:
                # the call itself carries a doccomment: it still belongs to the body it sits in
                it["doc"] = {"lines": [f"Parses the keyword arguments. PADOC{n}M"], "form": "leader", "marker": f"PADOC{n}M"}
    if mod.get("moddoc"):
        fix(mod["moddoc"])
    return mod


def extra(ctx):
    """A few modules of hundreds of items: the drawn item list is tiled 25..45 times, every copy with names of its own."""
    from .common import large_campaign
    large_campaign(ctx, strategy("quick", repeat=st.integers(25, 45)), evaluate, 4 if ctx.tier == "quick" else 32)


def evaluate(case):
    res = Result()
    module = prepare(case)
    ms = M.MSettings.from_json(case["settings"])
    src = R.render(module, case["layout"])
    funcs = [(it, d, p) for it, d, p in G.walk(module["items"]) if it["k"] == "func"]
    pa_special = False
    for it, depth, parent in G.walk(module["items"]):
        if it["k"] == "parseargs":
            if parent is None:
                pa_special = True
                res.labels.append("parseargs:file-level")
            elif parent["k"] == "block":
                pa_special = True
                res.labels.append("parseargs:in-block")
            elif parent["k"] in ("member", "test", "section"):
                pa_special = True
                res.labels.append("parseargs:in-impl")
            elif parent["k"] == "class":
                pa_special = True
                res.labels.append("parseargs:class-level")
            elif parent["k"] == "func" and depth >= 2:
                pa_special = True
                res.labels.append("parseargs:nested-def")
            else:
                res.labels.append("parseargs:direct")
    for it, _, par in funcs:
        if par is not None and par["k"] == "func" and (par["cmd"], par["name"], par["params"]) == (it["cmd"], it["name"], it["params"]):
            after = par["body"][par["body"].index(it) + 1:]
            res.labels.append("nested-redefinition-of-enclosing" + (":parseargs-after" if any(x["k"] == "parseargs" for x in after) else ""))
    strip_hits = False
    for it, _, _ in funcs:
        pat = ms.strip[it["cmd"]]
        if pat and (re.search(pat, it["name"]) or any(re.search(pat, p) for p in it["params"])):
            strip_hits = True
    if strip_hits:
        res.labels.append("strip-pattern-matches")
    if any(ms.trigger in M.doc_text(it["doc"]) for it, _, _ in funcs if it["doc"]):
        res.labels.append("trigger-in-doc")
    res.nontrivial = len(funcs) >= 2 and (pa_special or strip_hits)
    if res.nontrivial:
        res.sample = {"settings": case["settings"], "source": short(src, 700)}
    run = document_text(src, real_settings(ms))
    if run.exc is not None:
        res.fail(exc_key(run.exc), repr(run.exc)[:300])
        return res
    page = V.Page(run.text)
    exp = M.expected(module, ms)
    for key, detail in C.compare_entries(exp, page):
        k0 = key.split(":")[0]
        kind = key.split(":")[1] if ":" in key else ""
        if k0.startswith("sig") and kind in ("function", "macro"):
            res.fail(key, detail)
        elif k0 in ("missing", "mismatch") and kind in ("function", "macro"):
            res.fail(key, detail)
        elif key == "extra:function":
            res.fail(key, detail)
    return res


def describe(case):
    return {"settings": case["settings"], "source": R.render(prepare(case), case["layout"])}
