"""C06 Unreadable input fails loudly, never silently truncated (fault injection)."""
import os
import subprocess

from hypothesis import strategies as st

from vlib import gen_cmake as G, render as R, ref_lexer as L, sandbox as S
from vlib.cminx_run import scratch_dir
from vlib.harness import Result, HarnessError, digest
from .common import exc_key, short

ID = "C06"
LEVEL = "fault_enumeration"
RULE = ("a valid generated module (all kinds, comment-rich layout) and a fault plan: kind in {stray '\"', unterminated "
        "'\"text', backslash+alphanumeric, backslash at EOF, unterminated '#[=[' / '#[==[' / '#[[' bracket comment, extra ')', "
        "missing ')', extra '(', bare word between commands} x position (between commands, inside an argument list after "
        "any argument, at EOF), singly or in pairs; quick: drawn plans; thorough: for every drawn module every position x "
        "every kind is enumerated. Classification by the reference lexer (legacy tolerant, validated against CMake in C05 "
        "and, for a sample here, against `cmake -P` parse errors): only mutants that are invalid outside comments demand "
        "a failure; absorbed faults are counted as trivial. Oracle: cminx.main(['-o', out, file]) must raise or exit "
        "non-zero and write no .rst for the file (directory-mode sample: siblings may be written, the faulty page not); "
        "runs also under all / some include_undocumented_* flags off and with the faulty file first or in the middle of "
        "several command-line inputs or in a subdirectory (-r); independently, a run that succeeds while ANTLR reports 'token recognition error' is a violation. Non-trivial: an "
        "effective fault; distinct by (kind, context class, module hash)")
RULE_MORE = 'settings variants with a logging section at DEBUG (console or log file) besides the include_undocumented_* vectors. Later: quiet logging configurations; link modes; 1..512 faulty inputs on one command line of a real subprocess; (round 10) the faulty file among 40 siblings, named like a glob pattern matching valid neighbours, in the input directory with valid subdirectories walked after it.'
ASSUMPTIONS = ["the reference lexer decides which mutants are invalid; disputed mutants (cmake -P reports no parse error for a "
               "parse-level fault) are dropped and counted, more than 0.5% is a harness error",
               "invalid escape sequences are judged by the grammar of cmake-language(7) (CMake reports them only when the "
               "command is evaluated)"]
BUDGET = {"quick": {"shards": 8, "examples": 250}, "thorough": {"shards": 16, "examples": 110}}

KINDS = ["stray-quote", "unterminated-quote", "bad-escape", "backslash-eof", "unterminated-bracket-comment", "extra-close",
         "missing-close", "extra-open", "bare-word"]
CMAKE = "/usr/bin/cmake"


def strategy(tier):
    p = G.Profile(max_items=5 if tier == "quick" else 6, depth=2, dangling=False, body_max=2, min_items=1)
    where = G.weighted((3, st.integers(0, 400)), (1, st.sampled_from([-1, -2, -3, -4])))      # last positions: EOF contexts
    plan = st.tuples(st.sampled_from(KINDS), where, st.integers(0, 7))
    return st.fixed_dictionaries({
        "module": G.module(p), "layout": G.layout_choices(24),
        "faults": st.lists(plan, min_size=1, max_size=2),
        "mode": st.sampled_from(["file", "file", "dir-many", "glob-name", "root-with-subdirs", "file", "dir", "multi-first", "multi-middle", "subdir", "dir-twin", "multi-prefix", "file-link", "dir-link"]),
        "flags": st.sampled_from(["default", "log-debug", "all-off", "some-off", "default", "log-file", "log-quiet", "log-root-only"]),
        "exhaustive": st.just(tier == "thorough"),
    })


def positions(src, lx):
    """Token-boundary positions outside comments: [(offset, context)]."""
    pos = []
    for c in lx.commands:
        pos.append((c.start, "between-commands"))
        pos.append((c.open_paren + 1, "in-args"))
        for a, b in c.spans:
            pos.append((b, "in-args"))
        pos.append((c.end, "between-commands"))
    pos.append((len(src), "eof"))
    return pos


def apply_fault(src, kind, off, ctx, variant):
    """-> mutated text (or None when the kind does not apply at this position)."""
    if kind == "stray-quote":
        return src[:off] + ' " ' + src[off:]
    if kind == "unterminated-quote":
        return src[:off] + ' "unterminated text' + ("" if variant % 2 else " more") + src[off:]
    if kind == "bad-escape":
        if ctx != "in-args":
            return None
        return src[:off] + " " + ["\\a1", "x\\Zy", "\\9", "\\q"][variant % 4] + " " + src[off:]
    if kind == "backslash-eof":
        if ctx != "eof":
            return None
        return src + ["\\", "foo(\\", "foo(a\\"][variant % 3]
    if kind == "unterminated-bracket-comment":
        opener = ["#[=[", "#[==[", "#[[", "#[===["][variant % 4]
        return src[:off] + " " + opener + " never closed " + src[off:]
    if kind == "extra-close":
        return src[:off] + " ) " + src[off:]
    if kind == "missing-close":
        if ctx != "in-args":
            return None
        # remove the closing parenthesis of the command that contains this position
        return None
    if kind == "extra-open":
        if ctx != "in-args":
            return None
        return src[:off] + " ( " + src[off:]
    if kind == "bare-word":
        if ctx == "in-args":
            return None
        # also characters that are line boundaries for str.splitlines() but ordinary (stray) text for CMake
        words = ["\nstrayword\n", "\nstray word(\n", "\n123abc\n", "\n= x\n", "\n\x0c\n", "\n\x85\n", "\n\u2028\n", "\n\x0b\x1c\n"]
        return src[:off] + words[variant % len(words)] + src[off:]
    return None


def remove_close(src, lx, idx):
    c = lx.commands[idx % len(lx.commands)]
    return src[:c.end - 1] + src[c.end:], c.end - 1


def cmake_parse_error(text):
    d = os.path.join(scratch_dir(), "c06cm")
    os.makedirs(d, exist_ok=True)
    path = os.path.join(d, "m.cmake")
    with open(path, "wb") as f:
        f.write(("return()\n" + text).encode("utf-8"))
    p = subprocess.run([CMAKE, "-P", path], cwd=d, capture_output=True, text=True)
    err = p.stderr.lower()
    return p.returncode != 0 and ("parse error" in err or "syntax error" in err)


FLAG_NAMES = ["function", "macro", "cpp_class", "cpp_attr", "cpp_constructor", "cpp_member", "ct_add_test", "add_test",
              "ct_add_section", "option"]


def run_one(text, mode, res, kind, ctx, flags="default"):
    with S.Sandbox("c06") as sb:
        inp = sb.path("in")
        os.makedirs(inp)
        bad = os.path.join(inp, "faulty.cmake")
        with open(bad, "wb") as f:
            f.write(text.encode("utf-8"))
        out = sb.path("out")
        good = []
        for nm in ("a_good.cmake", "z_good.cmake"):
            p_ = os.path.join(inp if mode == "dir" else sb.path("else"), nm)
            with open(p_, "w") as f:
                f.write(f"function(ok_{nm[0]})\nendfunction()\n")
            good.append(p_)
        if mode == "dir":
            argv = [inp, "-o", out]
        elif mode == "file-link":
            # the faulty module is handed in through a symbolic link
            os.makedirs(sb.path("real"))
            os.rename(bad, sb.path("real", "target.cmake"))
            os.symlink(sb.path("real", "target.cmake"), bad)
            argv = [bad, "-o", out]
        elif mode == "dir-link":
            os.symlink(inp, sb.path("linked_in"))
            argv = [sb.path("linked_in"), "-o", out]
        elif mode == "subdir":
            # the faulty file sits in a subdirectory reached only in recursive mode
            os.makedirs(os.path.join(inp, "deeper"))
            os.rename(bad, os.path.join(inp, "deeper", "faulty.cmake"))
            with open(os.path.join(inp, "top.cmake"), "w") as f:
                f.write("function(ok_top)\nendfunction()\n")
            argv = [inp, "-r", "-o", out]
        elif mode == "dir-twin":
            # a valid module whose name differs from the faulty one only in the case of the extension
            with open(os.path.join(inp, "faulty.CMAKE"), "w") as f:
                f.write("function(ok_twin)\nendfunction()\n")
            argv = [inp, "-o", out]
        elif mode == "multi-prefix":
            # a good directory input, then the faulty file whose path starts with the same characters
            gd = sb.path("else", "mod")
            os.makedirs(gd)
            with open(os.path.join(gd, "inner.cmake"), "w") as f:
                f.write("function(ok_inner)\nendfunction()\n")
            bad2 = sb.path("else", "mod.cmake")
            os.rename(bad, bad2)
            argv = [gd, bad2, "-r", "-o", out]
        elif mode == "dir-many":
            # the faulty module is one of several dozen in its directory
            for k in range(40):
                with open(os.path.join(inp, f"m{k:02d}.cmake" if k % 2 else f"z{k:02d}.cmake"), "w") as f:
                    f.write(f"function(ok_m{k})\nendfunction()\n")
            argv = [inp, "-o", out]
        elif mode == "glob-name":
            # the faulty file's own name reads like a glob pattern that matches valid neighbours (but not itself)
            bad2 = os.path.join(inp, "toolchain[v2].cmake")
            os.rename(bad, bad2)
            for nm in ("toolchain2.cmake", "toolchainv.cmake"):
                with open(os.path.join(inp, nm), "w") as f:
                    f.write("function(ok_neighbour)\nendfunction()\n")
            argv = [bad2, "-o", out]
        elif mode == "root-with-subdirs":
            # the faulty file sits in the input directory itself; valid subdirectories are walked after it
            for sub in ("asub", "zsub"):
                os.makedirs(os.path.join(inp, sub))
                with open(os.path.join(inp, sub, "fine.cmake"), "w") as f:
                    f.write("function(ok_fine)\nendfunction()\n")
            argv = [inp, "-r", "-o", out]
        elif mode == "multi-first":
            argv = [bad, good[0], good[1], "-o", out]
        elif mode == "multi-middle":
            argv = [good[0], bad, good[1], "-o", out]
        else:
            argv = [bad, "-o", out]
        if flags in ("all-off", "some-off"):
            off = FLAG_NAMES if flags == "all-off" else FLAG_NAMES[::2]
            cfg = sb.path("flags.yaml")
            with open(cfg, "w") as f:
                f.write("input:\n" + "".join(f"  include_undocumented_{k}: false\n" for k in off))
            argv += ["-s", cfg]
        elif flags in ("log-debug", "log-file"):
            # the logging section of the settings (any dictConfig): everything at DEBUG on the console, or into a log file
            cfg = sb.path("logging.yaml")
            handler = ("    console:\n      class: logging.StreamHandler\n      level: DEBUG\n      formatter: simple\n"
                       "      stream: ext://sys.stdout\n") if flags == "log-debug" else \
                      ("    console:\n      class: logging.FileHandler\n      level: DEBUG\n      formatter: simple\n"
                       f"      filename: {sb.path('cminx-log.txt')}\n      mode: w\n")
            with open(cfg, "w") as f:
                f.write("logging:\n  version: 1\n  formatters:\n    simple:\n      format: '%(name)s - %(levelname)s - %(message)s'\n"
                        "  handlers:\n" + handler +
                        "  loggers:\n    cminx:\n      level: DEBUG\n      handlers:\n        - console\n      propagate: no\n"
                        "  root:\n    level: DEBUG\n    handlers:\n      - console\n")
            argv += ["-s", cfg]
        elif flags in ("log-quiet", "log-root-only"):
            # logging configurations that keep CMinx's own records away: its logger at CRITICAL, or a section naming only root
            cfg = sb.path("logging.yaml")
            with open(cfg, "w") as f:
                f.write("logging:\n  version: 1\n  formatters:\n    simple:\n      format: '%(message)s'\n"
                        "  handlers:\n    console:\n      class: logging.StreamHandler\n      level: CRITICAL\n      formatter: simple\n"
                        "      stream: ext://sys.stdout\n" +
                        ("  loggers:\n    cminx:\n      level: CRITICAL\n      handlers:\n        - console\n      propagate: no\n"
                         if flags == "log-quiet" else "") +
                        "  root:\n    level: CRITICAL\n    handlers:\n      - console\n")
            argv += ["-s", cfg]
        r = S.run_main(argv, cwd=sb.path("cwd"))
        page = os.path.join(out, "deeper", "faulty.rst") if mode == "subdir" else os.path.join(out, "faulty.rst")
        if mode == "multi-prefix":
            page = os.path.join(out, "mod.rst")
        if mode == "glob-name":
            page = os.path.join(out, "toolchain[v2].rst")
        if mode == "dir-twin":
            page = os.path.join(out, "no-such-page")      # faulty.rst legitimately comes from the valid twin
        failed = r.exc is not None or r.code != 0
        skipped = "token recognition error" in r.stderr
        return failed, os.path.exists(page), skipped, r


def check_mutant(src, mutated, kind, ctx, mode, res, cross, flags="default"):
    lx = L.lex(mutated)
    if lx.error is None:
        res.labels.append("absorbed:" + kind)
        failed, page, skipped, r = run_one(mutated, mode, res, kind, ctx, flags)
        if skipped and not failed:
            res.fail("silent-skip:" + kind, "run succeeded although the lexer skipped source characters: " + r.stderr.strip()[:160])
        return False
    if cross and kind.split("+")[-1] not in ("bad-escape", "backslash-eof") and \
            lx.error.kind not in ("invalid-escape", "backslash-at-eof"):
        if not cmake_parse_error(mutated):
            res.labels.append("disputed:" + kind)
            res.fail("HARNESS:disputed-mutant:" + kind, f"reference lexer: {lx.error}; cmake -P reports no parse error")
            return False
    res.labels.append(f"effective:{kind}:{ctx}")
    failed, page, skipped, r = run_one(mutated, mode, res, kind, ctx, flags)
    if not failed and kind.split("+")[-1] not in ("bad-escape", "backslash-eof") and \
            lx.error.kind not in ("invalid-escape", "backslash-at-eof") and not cmake_parse_error(mutated):
        # CMinx accepted the file and so does CMake's parser: the reference lexer was too strict, not a violation
        res.labels.append("disputed:" + kind)
        res.fail("HARNESS:disputed-mutant:" + kind, f"reference lexer: {lx.error}; cmake -P reports no parse error; CMinx accepted")
        return False
    if not failed:
        sub = "lexical" if lx.error.kind in ("unterminated-string", "invalid-escape", "backslash-at-eof",
                                             "unterminated-bracket-comment", "unterminated-bracket-argument") else "syntactic"
        res.fail(f"accepted-faulty-input:{sub}:{lx.error.kind}", f"{kind} at {ctx}: exit 0, page written={page}; "
                 f"reference: {lx.error}; stderr {r.stderr.strip()[:120]!r}")
    elif page:
        res.fail(f"page-written-for-faulty-file:{lx.error.kind}", f"{kind} at {ctx}: the run failed but faulty.rst exists")
    return True


def many_inputs(n, kind=0):
    """n faulty files on one command line of a real subprocess: the exit status must be non-zero, no page may exist."""
    import sys
    from vlib import SRC
    res = Result(nontrivial=True)
    faults = ["set(x \"unterminated\n", "function(f a\nendfunction(\n", "message(ok))\n", "stray words here\n", "set(y \\q)\n"]
    with S.Sandbox("c06n") as sb:
        files = []
        for i in range(n):
            p_ = sb.path("in", f"bad_{i:03d}.cmake")
            os.makedirs(os.path.dirname(p_), exist_ok=True)
            with open(p_, "w") as f:
                f.write("function(ok_%d)\nendfunction()\n" % i + faults[kind % len(faults)])
            files.append(p_)
        env = dict(os.environ, CMINXDIR=sb.path("cfg"), HOME=sb.path("cfg"), XDG_CONFIG_HOME=sb.path("cfg"))
        code = f"import sys; sys.path.insert(0, {SRC!r}); import warnings; warnings.simplefilter('ignore'); import cminx; cminx.main(sys.argv[1:])"
        p = subprocess.run([sys.executable, "-c", code] + files + ["-o", sb.path("out")], cwd=sb.path("cwd"), env=env, capture_output=True)
        if p.returncode == 0:
            res.fail("accepted-faulty-input:exit-status-zero-for-many-faulty-inputs", f"{n} faulty inputs on one command line: exit status 0")
        pages = [f for f in os.listdir(sb.path("out"))] if os.path.isdir(sb.path("out")) else []
        if any(f.startswith("bad_") for f in pages):
            res.fail("page-written-for-faulty-file:many-inputs", f"pages {sorted(pages)[:4]} written for faulty inputs")
    res.labels.append("many-faulty-inputs-in-a-subprocess")
    return res


def deep_nesting(depth, fault):
    """A balanced argument list nested `depth` levels deep, followed by a fault: the run must still fail loudly."""
    res = Result(nontrivial=True)
    text = "function(ok_before)\nendfunction()\nmessage(" + "(" * depth + "x" + ")" * depth + ")\n" + fault
    with S.Sandbox("c06d") as sb:
        bad = sb.path("in", "faulty.cmake")
        os.makedirs(os.path.dirname(bad))
        with open(bad, "w") as f:
            f.write(text)
        r = S.run_main([bad, "-o", sb.path("out")], cwd=sb.path("cwd"))
        failed = r.exc is not None or r.code != 0
        if not failed:
            res.fail("accepted-faulty-input:after-deep-nesting", f"{depth} nested groups then {fault!r}: exit 0")
        if os.path.exists(sb.path("out", "faulty.rst")):
            res.fail("page-written-for-faulty-file:after-deep-nesting", f"{depth} nested groups then {fault!r}: faulty.rst exists")
    res.labels.append("fault-after-deeply-nested-arguments")
    return res


def extra(ctx):
    for depth, fault in ((200, "stray words\n"), (1500, "set(x 1))\n"), (1500, "set(y \\q)\n"), (3000, "function(f\n")):
        ctx.record({"deep_nesting": depth, "fault": fault}, deep_nesting(depth, fault))
    for n, kind in ((1, 0), (2, 1), (255, 2), (256, 2), (256, 0), (257, 3), (512, 2), (256, 4)):
        ctx.record({"many_inputs": n, "kind": kind}, many_inputs(n, kind))


def evaluate(case):
    if "deep_nesting" in case:
        return deep_nesting(case["deep_nesting"], case["fault"])
    if "many_inputs" in case:
        return many_inputs(case["many_inputs"], case.get("kind", 0))
    res = Result()
    src = R.render(case["module"], case["layout"])
    lx = L.lex(src)
    if lx.error is not None:
        raise HarnessError(f"generator produced a file the reference lexer rejects: {lx.error}\n{src}")
    if not lx.commands:
        res.labels.append("discarded:no-commands")
        return res
    pos = positions(src, lx)
    effective = 0
    cross = int(digest(case)[:2], 16) % 6 == 0
    if case.get("exhaustive"):
        # every position x every kind, singly
        n = 0
        for off, ctx in pos:
            for kind in KINDS:
                if kind == "missing-close":
                    continue
                m = apply_fault(src, kind, off, ctx, (off + len(kind)) % 8)
                if m is None:
                    continue
                n += 1
                if check_mutant(src, m, kind, ctx, "file", res, False):
                    effective += 1
                    res.extra_nontrivial.append(digest([kind, ctx, m]))
        for i in range(len(lx.commands)):
            m, _ = remove_close(src, lx, i)
            n += 1
            if check_mutant(src, m, "missing-close", "in-args", "file", res, False):
                effective += 1
                res.extra_nontrivial.append(digest(["missing-close", "in-args", m]))
        res.extra_evaluations = n
        res.labels.append("enumerated-module")
        res.nontrivial = effective > 0
        res.labels += [f"mutants-enumerated"] * 0
        res.sample = {"mutants": n, "effective": effective, "source": short(src, 300)}
        res.failures = res.failures[:40]
        return res
    mutated = src
    applied = []
    for kind, pi, variant in case["faults"]:
        cur = L.lex(mutated)
        base_lx = cur if cur.error is None else None
        if base_lx is None:
            break          # already invalid; a second fault is injected on valid text only
        ps = positions(mutated, base_lx)
        off, ctx = ps[pi % len(ps)]
        if kind == "missing-close":
            m, off = remove_close(mutated, base_lx, pi)
            ctx = "in-args"
        else:
            m = apply_fault(mutated, kind, off, ctx, variant)
            if m is None:
                # move to a position of the right class
                alt = [p for p in ps if (p[1] == "in-args") == (kind in ("bad-escape", "extra-open"))
                       and (kind != "backslash-eof" or p[1] == "eof")]
                if kind == "backslash-eof":
                    alt = [p for p in ps if p[1] == "eof"]
                if kind == "bare-word":
                    alt = [p for p in ps if p[1] != "in-args"]
                if not alt:
                    continue
                off, ctx = alt[pi % len(alt)]
                m = apply_fault(mutated, kind, off, ctx, variant)
                if m is None:
                    continue
        mutated = m
        applied.append((kind, ctx))
    if not applied:
        res.labels.append("discarded:no-applicable-fault")
        return res
    kind, ctx = applied[-1]
    eff = check_mutant(src, mutated, "+".join(k for k, _ in applied) if len(applied) > 1 else kind, ctx, case["mode"], res, cross,
                       case.get("flags", "default"))
    res.labels.append("flags:" + case.get("flags", "default"))
    res.nontrivial = bool(eff)
    res.labels.append("mode:" + case["mode"])
    if len(applied) > 1:
        res.labels.append("fault-pair")
    if eff:
        res.sample = {"faults": applied, "mutated_tail": short(mutated[-260:], 260)}
    return res


def describe(case):
    return {"faults": case["faults"], "mode": case["mode"], "source": R.render(case["module"], case["layout"])}
