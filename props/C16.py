"""C16 Settings layer as command line > -s file > user config > defaults."""
import copy
import os

import yaml
from hypothesis import strategies as st

from vlib import SRC, sandbox as S
from vlib.harness import Result, HarnessError, digest
from .common import exc_key

ID = "C16"
LEVEL = "exploration"
RULE = ("for every option of the input/output/rst sections (keys read from config_default.yaml plus prefix, exclude_filters, "
        "output.directory) an independent subset of the sources {command line (-o -r -p -e only), -s file, user config} with "
        "distinct values per source; optional wrong-type value at the highest-priority file source of one option; relative or "
        "absolute output directory x relative_to_config x drawn cwd; oracle: cminx.document is replaced by a recorder inside "
        "the harness process and the recorded Settings must equal, option by option, the value of the highest-priority "
        "source that sets it, else the default parsed from config_default.yaml with PyYAML; exclude_filters = multiset union; "
        "output.directory = absolute path resolved against cwd or the setting file's directory; an effective wrong-typed "
        "value must raise and document() must not run. Non-trivial: >=1 option set in >=2 sources with different values; "
        "distinct by SHA-1 of the case; coverage lists the (option, source subset) pairs seen")
RULE_MORE = 'decoy configuration files in platform locations, runs without a per-user file, CMINXDIR with a tilde; near-duplicate and backslash patterns. (round 11) command-line values starting with an at-sign (prefix, output directory, pattern); a configured output directory spelled with `$HOME` / `${HOME}` (end-to-end sample).'
ASSUMPTIONS = ["confuse honours CMINXDIR for the per-user configuration directory", "bare strings for list options and "
               "mappings for headers are not injected (confuse converts them; the property does not define them)"]
BUDGET = {"quick": {"shards": 8, "examples": 200}, "thorough": {"shards": 16, "examples": 3000}}

BOOL_INPUT = ["include_undocumented_function", "include_undocumented_macro", "include_undocumented_cpp_class",
              "include_undocumented_cpp_attr", "include_undocumented_cpp_constructor", "include_undocumented_cpp_member",
              "include_undocumented_ct_add_test", "include_undocumented_add_test", "include_undocumented_ct_add_section",
              "include_undocumented_option", "auto_exclude_directories_without_cmake", "follow_symlinks"]
STR_INPUT = ["kwargs_doc_trigger_string", "function_parameter_name_strip_regex", "macro_parameter_name_strip_regex",
             "member_parameter_name_strip_regex"]
OPTIONS = ([("input", k, "bool") for k in BOOL_INPUT] + [("input", k, "str") for k in STR_INPUT] +
           [("input", "recursive", "bool-cli"), ("input", "exclude_filters", "list-union"),
            ("output", "directory", "path-cli"), ("output", "relative_to_config", "bool"),
            ("rst", "file_extensions_in_titles", "bool"), ("rst", "file_extensions_in_modules", "bool"),
            ("rst", "module_path_separator", "str"), ("rst", "headers", "strlist"), ("rst", "prefix", "str-cli")])
CLI_ABLE = {"recursive", "exclude_filters", "directory", "prefix"}
WRONG = {"bool": ["yes-string", 7, [True]], "bool-cli": ["yes-string", 7], "str": [5, ["a"], True], "str-cli": [5, ["a"]],
         "strlist": [5, [1, 2]], "list-union": [5, {"a": 1}], "path-cli": [5, ["x"]]}


def strategy(tier):
    per_opt = st.fixed_dictionaries({"s": st.booleans(), "u": st.booleans(), "c": st.booleans(), "flip": st.booleans(),
                                     "abs": st.booleans()})
    return st.fixed_dictionaries({
        "sets": st.lists(per_opt, min_size=len(OPTIONS), max_size=len(OPTIONS)),
        "wrong": st.one_of(st.none(), st.none(), st.tuples(st.integers(0, len(OPTIONS) - 1), st.integers(0, 2))),
        "cwd": st.sampled_from(["cwd", "cwd/deeper", "else"]),
        "sfile_dir": st.sampled_from(["cfgs", "cwd", "else/conf"]),
        # no per-user configuration file at all (the 'u' choices are ignored)
        "no_user": st.sampled_from([False, False, False, True]),
        # CMINXDIR spelled with a leading tilde (as it arrives from a unit file or a quoted assignment)
        "tilde": st.sampled_from([False, False, True]),
        # the input is a directory, and absolute output directories lie inside it
        "dir_input": st.sampled_from([False, False, True]),
    })


def defaults():
    with open(os.path.join(SRC, "cminx", "config_default.yaml"), encoding="utf-8") as f:
        return yaml.safe_load(f)


def value_for(section, key, typ, src, flip, sb, absolute):
    if typ in ("bool", "bool-cli"):
        base = {"s": True, "u": False, "c": True}[src]
        return (not base) if flip and src != "c" else base
    if typ in ("str", "str-cli"):
        if key == "module_path_separator":
            return {"s": "::", "u": "/", "c": "-"}[src]
        if flip and src == "c" and key == "prefix" and absolute:
            return ""             # -p '' is a value, not an absent flag
        if key == "prefix" and src == "c" and flip and not absolute:
            return "@scope"       # a value, not a response file
        if key == "prefix" and not flip:
            return {"s": "prefix_s.", "u": "prefix_u::", "c": "prefix_c.-/"}[src]      # ends in characters separators are made of
        return {"s": f" {key[:6]}_{src} ", "u": f"{key[:6]} {src}\t", "c": f"{key[:6]}_{src}  "}[src] if flip else f"{key[:6]}_{src}"
    if typ == "strlist":
        return {"s": ["=", "-", "~"], "u": ["^", "+"], "c": ["*"]}[src]
    if typ == "list-union":
        if flip and src == "s":
            return []            # an empty list in a higher-priority source must not hide the lower ones
        # near-duplicates across sources (trailing slash, leading './', doubled slash) are different patterns
        return {"s": ["pat_s1", "*.s2", "pat_c2", "./pat_u1"], "u": ["pat_u1", "pat_c1/", "gen*", "\\#hash_first.cmake", "a\\*b"], "c": ["pat_c1", "pat_c2/", "gen*/", "a//b", "@gen*"]}[src]
    if typ == "path-cli":
        rel = f"outdir_{src}/x"
        if flip and src == "c":
            rel = "@outdir_c/x"                 # argparse must not read it as a response file
        elif flip and src == "s":
            rel = "outdir_s_$HOME/${HOME}x"     # a legal directory name; environment variables are not expanded
        if absolute and getattr(sb, "dir_input", False):
            return sb.path("dirinput", "absout_" + src)       # an output directory inside the directory that is documented
        return sb.path("absout_" + src) if absolute else rel
    raise HarnessError(typ)


def evaluate(case):
    import cminx
    res = Result()
    dflt = defaults()
    with S.Sandbox("c16") as sb:
        sb.dir_input = bool(case.get("dir_input"))
        cwd = sb.path(case["cwd"])
        os.makedirs(cwd, exist_ok=True)
        sdir = sb.path(case["sfile_dir"])
        os.makedirs(sdir, exist_ok=True)
        sfile_data, user_data, argv = {}, {}, []
        expected = {}
        seen_subsets = []
        nt = False
        wrong = case["wrong"]
        wrong_effective = None
        for i, ((section, key, typ), sel) in enumerate(zip(OPTIONS, case["sets"])):
            srcs = []
            vals = {}
            for src in ("u", "s", "c"):
                if not sel[src] or (src == "u" and case.get("no_user")):
                    continue
                if src == "c" and key not in CLI_ABLE:
                    continue
                v = value_for(section, key, typ, src, sel["flip"], sb, sel["abs"])
                vals[src] = v
                srcs.append(src)
            # wrong-type injection at the highest-priority file source of this option
            if wrong is not None and wrong[0] == i:
                fs = "s" if "s" in vals else ("u" if "u" in vals else None)
                if fs is None:
                    fs = "s"
                    srcs.append("s")
                vals[fs] = WRONG[typ][wrong[1] % len(WRONG[typ])]
                if "c" not in vals or typ == "list-union":
                    wrong_effective = (section, key, fs, vals[fs])
            for src, v in vals.items():
                if src == "s":
                    sfile_data.setdefault(section, {})[key] = v
                elif src == "u":
                    user_data.setdefault(section, {})[key] = v
                else:
                    if key == "recursive":
                        argv.append("-r")
                    elif key == "exclude_filters":
                        for p in v:
                            argv += ["-e", p]
                    elif key == "directory":
                        argv += ["-o", v]
                    elif key == "prefix":
                        argv += ["-p", v]
            subset = "".join(s for s in "ucs" if s in vals) or "-"
            seen_subsets.append(f"{key}:{subset}")
            if typ == "list-union":
                exp = []
                for src in ("c", "s", "u"):
                    exp += vals.get(src, []) if isinstance(vals.get(src, []), list) else []
                expected[(section, key)] = ("multiset", sorted(exp))
            else:
                top = "c" if "c" in vals else "s" if "s" in vals else "u" if "u" in vals else None
                if top is None:
                    d = dflt.get(section, {}).get(key)
                    expected[(section, key)] = ("value", d, None)
                else:
                    expected[(section, key)] = ("value", vals[top], top)
                distinct = {repr(v) for v in vals.values()}
                if len(vals) >= 2 and len(distinct) >= 2:
                    nt = True
        sfile = os.path.join(sdir, "extra.yaml")
        with open(sfile, "w", encoding="utf-8") as f:
            yaml.safe_dump(sfile_data, f)
        if user_data or not case.get("no_user"):
            with open(sb.path("cfg", "config.yaml"), "w", encoding="utf-8") as f:
                yaml.safe_dump(user_data, f)
        else:
            res.labels.append("no-user-config-file")
        # CMINXDIR names the per-user configuration directory; configuration files in the platform's usual places
        # (HOME and XDG_CONFIG_HOME point into the sandbox) are not a source and must not leak in
        decoy = {"input": {"recursive": True, "include_undocumented_function": False, "exclude_filters": ["decoy_pattern"]},
                 "rst": {"prefix": "DECOY", "file_extensions_in_titles": True, "module_path_separator": "!"},
                 "output": {"directory": "decoy_out"}}
        for where in (sb.path("cfg", ".config", "cminx"), sb.path("cfg", "cminx")):
            os.makedirs(where, exist_ok=True)
            with open(os.path.join(where, "config.yaml"), "w", encoding="utf-8") as f:
                yaml.safe_dump(decoy, f)
        use_sfile = bool(sfile_data)
        inp_arg = sb.path("else", "input.cmake")
        if case.get("dir_input"):
            inp_arg = sb.path("dirinput")
            os.makedirs(inp_arg, exist_ok=True)
            with open(os.path.join(inp_arg, "m.cmake"), "w") as f:
                f.write("function(dir_fn a)\nendfunction()\n")
            res.labels.append("directory-input-containing-the-output")
        full_argv = [inp_arg] + (["-s", sfile] if use_sfile else []) + argv
        recorded = []
        orig = cminx.document

        def recorder(input_file, settings):
            recorded.append((input_file, copy.deepcopy(settings)))
        cminx.document = recorder
        try:
            run = S.run_main(full_argv, cwd=cwd, cfgdir=sb.path("cfg"), tilde=bool(case.get("tilde")))
        finally:
            cminx.document = orig
        if case.get("tilde"):
            res.labels.append("CMINXDIR-with-tilde")
        res.labels += seen_subsets
        res.labels.append("wrong-type:" + ("effective" if wrong_effective else "shadowed" if wrong else "none"))
        res.nontrivial = nt
        if nt:
            res.sample = {"argv": [a.replace(sb.root, "<sb>") for a in full_argv], "sfile": sfile_data, "user": user_data,
                          "cwd": case["cwd"]}
        if wrong_effective is not None:
            if recorded:
                section, key, fs, v = wrong_effective
                res.fail(f"wrong-type-accepted:{section}.{key}", f"{section}.{key} = {v!r} ({type(v).__name__}) from the "
                         f"{'-s file' if fs == 's' else 'user config'} was accepted; document() ran")
            elif run.exc is None and run.code == 0:
                res.fail("wrong-type-silent", "no error raised and document() not called")
            return res
        if run.exc is not None or run.code != 0:
            res.fail(exc_key(run.exc) if run.exc else f"exit-{run.code}", (repr(run.exc) + run.stderr)[-400:])
            return res
        if len(recorded) != 1:
            res.fail("document-call-count", f"document() called {len(recorded)} times for one input")
            return res
        st_obj = recorded[0][1]
        # effective relative_to_config
        rtc = expected[("output", "relative_to_config")][1]
        for (section, key), exp in expected.items():
            actual = getattr(getattr(st_obj, section), key, "<missing>")
            if exp[0] == "multiset":
                if sorted(actual) != exp[1]:
                    res.fail("exclude-filters-union", f"expected multiset {exp[1]} got {sorted(actual)}")
                continue
            want, top = exp[1], exp[2]
            if key == "directory":
                if want is None:
                    if actual is not None:
                        res.fail("option:output.directory", f"expected None got {actual!r}")
                    continue
                if os.path.isabs(want):
                    want_abs = want
                elif rtc and top in ("s", "u"):
                    want_abs = os.path.join(sdir if top == "s" else sb.path("cfg"), want)
                else:
                    want_abs = os.path.join(cwd, want)
                if actual is None or os.path.normpath(actual) != os.path.normpath(want_abs) or not os.path.isabs(actual):
                    res.fail("output-directory-resolution" + (":relative_to_config" if rtc else ""),
                             f"expected {want_abs.replace(sb.root, '<sb>')!r} got {str(actual).replace(sb.root, '<sb>')!r} "
                             f"(value {want!r} from {top}, relative_to_config={rtc}, cwd={case['cwd']})")
                continue
            a = list(actual) if isinstance(actual, (list, tuple)) else actual
            w = list(want) if isinstance(want, (list, tuple)) else want
            if a != w:
                which = {"c": "command-line", "s": "-s-file", "u": "user-config", None: "default"}[top]
                res.fail(f"option:{section}.{key}:{which}", f"expected {w!r} (from {which}) got {a!r}")
        # end to end for a deterministic sample: the page lands in the predicted directory
        exp_dir = expected[("output", "directory")]
        if exp_dir[1] is not None and int(digest(case)[:2], 16) % 6 == 0 and not res.failures and not case.get("dir_input"):
            res.labels.append("end-to-end")
            want, top = exp_dir[1], exp_dir[2]
            if os.path.isabs(want):
                want_abs = want
            elif rtc and top in ("s", "u"):
                want_abs = os.path.join(sdir if top == "s" else sb.path("cfg"), want)
            else:
                want_abs = os.path.join(cwd, want)
            inp = sb.path("else", "input.cmake")
            with open(inp, "w") as f:
                f.write("function(e2e_fn a)\nendfunction()\n")
            run2 = S.run_main(full_argv, cwd=cwd, cfgdir=sb.path("cfg"))
            page = os.path.join(want_abs, "input.rst")
            excluded_all = False
            if run2.exc is not None or run2.code != 0:
                res.fail("end-to-end:" + (exc_key(run2.exc) if run2.exc else f"exit-{run2.code}"), run2.stderr[-200:])
            elif not os.path.exists(page):
                others = [os.path.join(dp, f) for dp, _, fn in os.walk(sb.root) for f in fn if f == "input.rst"]
                res.fail("end-to-end:page-not-in-predicted-directory", f"expected {page.replace(sb.root, '<sb>')}, found "
                                                                       f"{[o.replace(sb.root, '<sb>') for o in others]}")
    return res


def describe(case):
    return {"sets": {OPTIONS[i][1]: "".join(k for k in "ucs" if s[k]) for i, s in enumerate(case["sets"])},
            "wrong": case["wrong"], "cwd": case["cwd"], "sfile_dir": case["sfile_dir"]}
