"""C07 Generated reST is structurally well formed (docutils doctree as the judge)."""
from hypothesis import strategies as st

from vlib import gen_cmake as G, render as R, model as M, rstview as V
from vlib.cminx_run import document_text, real_settings
from vlib.harness import Result, HarnessError
from .common import exc_key, short

ID = "C07"
LEVEL = "exploration"
RULE = ("modules of every entry kind (empty docs, classes nested to depth 3 with all member kinds, tests with sections, "
        "variables/options, attributes with defaults) whose doc bodies are built from a reST grammar (paragraphs, blank "
        "lines, field lists, bullet/enumerated lists, literal blocks, nested docutils-native directives with indented "
        "bodies, in any order, possibly ending in a list/literal block/directive); each body is first parsed standalone "
        "(bodies docutils rejects are discarded and counted); oracle: docutils doctree of the page with stub directives: "
        "no system message of level >=3, one section = title + module node + exactly the expected entry nodes and nothing "
        "else at section level, each doc marker only inside its own entry node, members inside their class node. "
        "Non-trivial: >=3 entry kinds, >=1 body ending in a literal block, list or directive, >=1 class with members; "
        "distinct by SHA-1 of the case")
RULE_MORE = "doccomments closed on their last text line ('# text #]]'). Later: runs of empty lines before indented lines; values of ~250 characters; escape sequences in single quoted values; duplicates."
ASSUMPTIONS = ["docutils 0.23 is the structure judge; Sphinx directives are stubbed (content parsed as nested body)",
               "argument values contain no line breaks; doc bodies are valid standalone reST"]
BUDGET = {"quick": {"shards": 8, "examples": 100}, "thorough": {"shards": 16, "examples": 2000}}

_sent = G.benign_line()


def _block():
    para = st.lists(_sent, min_size=1, max_size=4)
    fields = st.lists(st.builds(lambda n, t: f":param p{n}: {t}", st.integers(0, 9), _sent), min_size=1, max_size=3)
    typed = st.lists(st.builds(lambda n, t: f":type p{n}: {t}", st.integers(0, 9), st.sampled_from(["str", "list", "bool"])),
                     min_size=1, max_size=2)
    bullets = st.lists(st.builds(lambda t: "* " + t, _sent), min_size=1, max_size=3)
    dashes = st.lists(st.builds(lambda t: "- " + t, _sent), min_size=1, max_size=3)
    enum = st.lists(st.builds(lambda t: "#. " + t, _sent), min_size=1, max_size=3)
    literal = st.builds(lambda t, code: [t[:-1] + "::", ""] + ["   " + c for c in code], _sent,
                        st.lists(st.sampled_from(["set(x 1)", "message(\"hi\")", "  indented(code)", "# comment", "a = b"]),
                                 min_size=1, max_size=3))
    directive = st.builds(lambda name, body: [f".. {name}::", ""] + ["   " + b for b in body],
                          st.sampled_from(["note", "warning", "tip", "important"]), st.lists(_sent, min_size=1, max_size=2))
    admon = st.builds(lambda title, body: [f".. admonition:: {title[:-1]}", ""] + ["   " + b for b in body],
                      _sent, st.lists(_sent, min_size=1, max_size=2))
    code = st.builds(lambda body: [".. code:: cmake", ""] + ["   " + b for b in body],
                     st.lists(st.sampled_from(["set(x 1)", "foo(a b)", "  bar()"]), min_size=1, max_size=3))
    nested = st.builds(lambda b1, b2: [".. note::", "", "   " + b1, "", "   * " + b2, ""] + ["   .. tip::", "", "      " + b1],
                       _sent, _sent)
    # runs of two or three empty lines directly in front of an indented line (directive body, literal block, continuation)
    spaced = st.builds(lambda name, n, body: [f".. {name}::"] + [""] * n + ["   " + b for b in body],
                       st.sampled_from(["note", "warning", "tip"]), st.integers(2, 3), st.lists(_sent, min_size=1, max_size=2))
    spaced_lit = st.builds(lambda t, n, code: [t[:-1] + "::"] + [""] * n + ["   " + c for c in code], _sent, st.integers(2, 3),
                           st.lists(st.sampled_from(["set(x 1)", "a = b"]), min_size=1, max_size=2))
    spaced_item = st.builds(lambda a, n, b: ["* " + a] + [""] * n + ["  " + b], _sent, st.integers(2, 3), _sent)
    return st.one_of(para, para, fields, typed, bullets, dashes, enum, literal, directive, admon, code, nested,
                     spaced, spaced_lit, spaced_item)


def rest_doc():
    def join(blocks):
        lines = []
        for i, b in enumerate(blocks):
            if i:
                lines += [""] * (1 + (len(b) + i) % 3)       # one to three empty lines between blocks
            lines += b
        return lines
    return st.fixed_dictionaries({"lines": st.lists(_block(), min_size=0, max_size=4).map(join),
                                  "form": st.sampled_from(["leader", "leader", "mixed"]), "mpos": st.just(0), "rest": st.just(True),
                                  "close": st.sampled_from([None, None, "inline"])})


def strategy(tier):
    p = G.Profile(doc=rest_doc(), p_doc_mostly=True, max_items=6 if tier == "quick" else 9, depth=3, dangling=False,
                  groups=True, body_max=3, dups=3, weights={"class": 3, "test": 2, "parseargs": 0, "block": 1},
                  set_values=G.weighted((3, G.arglist(0, 4, G.SINGLE_T)),
                                        # one quoted value with escape sequences (no line break in the source)
                                        (1, st.lists(st.sampled_from(['"line\\nbreak@"', '"cr\\r@"', '"tab\\t and \\n@"']), min_size=1, max_size=1))))      # argument values without line breaks (the property's carve-out)
    return st.fixed_dictionaries({"module": G.module(p), "layout": G.layout_choices(8)})


LONG = '"' + " ".join(f"-Wsome-quite-long-flag-{i}" for i in range(9)) + ' @@"'


def _lengthen(mod):
    """Some single-line argument values far longer than a terminal line (with blanks to break at)."""
    n = 0
    for it, _, _ in G.walk(mod["items"]):
        n += 1
        if n % 3:
            continue
        val = LONG.replace("@@", str(n))
        if it["k"] == "attr" and it["extra"]:
            it["extra"][0] = val
        elif it["k"] == "set" and it["values"]:
            it["values"][-1] = val
        elif it["k"] == "option":
            it["help"] = val
    return mod


def _fix_markers(module):
    """finalize() appends the marker to line mpos=0; for reST bodies put it in a paragraph of its own at the top so the
    body stays valid reST."""
    import copy
    mod = copy.deepcopy(module)

    def fix(d):
        if d and d.get("marker") and d["lines"]:
            mk = d["marker"]
            body = []
            for l in d["lines"]:
                if l == mk or l == mk + " only.":
                    body.append("")
                elif l.endswith(" " + mk):
                    body.append(l[:-len(mk) - 1])
                else:
                    body.append(l)
            while body and body[0] == "":
                body.pop(0)
            num = int("".join(ch for ch in mk if ch.isdigit()) or 0)
            place = num % 3
            if place == 1 and body:
                d["lines"] = body + ["", mk + " closing marker paragraph."]
            elif place == 2 and body:
                # inside the last line that is running text (paragraph or indented body text)
                idx = None
                for i in range(len(body) - 1, -1, -1):
                    t = body[i].strip()
                    if t and not t.startswith((".. ", ":", "* ", "- ", "#. ")) and not t.endswith("::") and \
                            (body[i].startswith("   ") is False or not any(x in t for x in ("(", "=", "#"))):
                        idx = i
                        break
                if idx is None:
                    d["lines"] = [mk + " marker paragraph.", ""] + body
                else:
                    body[idx] = body[idx] + " " + mk
                    d["lines"] = body
            else:
                d["lines"] = [mk + " marker paragraph.", ""] + body
    for it, _, _ in G.walk(mod["items"]):
        fix(it.get("doc"))
    _lengthen(mod)
    if mod.get("moddoc"):
        fix(mod["moddoc"])
        # docutils measures title adornments in display columns; C12 fixes them to the title's length in characters.
        # East Asian wide characters make the two differ, so C07 keeps titles to narrow characters.
        import unicodedata
        nm = mod["moddoc"].get("name")
        if nm and any(unicodedata.east_asian_width(ch) in ("W", "F") for ch in nm):
            mod["moddoc"]["name"] = "wide_" + "".join(ch for ch in nm if ch.isascii())
    return mod


_body_cache = {}


def body_ok(lines):
    key = "\n".join(lines)
    if key not in _body_cache:
        if len(_body_cache) > 5000:
            _body_cache.clear()
        _, msgs = V.doctree(key + "\n")
        _body_cache[key] = not any(lvl >= 2 for lvl, _ in msgs)
    return _body_cache[key]


def evaluate(case):
    from docutils import nodes
    res = Result()
    module = _fix_markers(case["module"])
    docs = [it["doc"] for it, _, _ in G.walk(module["items"]) if it.get("doc")]
    if module.get("moddoc"):
        docs.append(module["moddoc"])
    for d in docs:
        if d["lines"] and not body_ok(d["lines"]):
            res.labels.append("discarded:body-not-valid-standalone")
            return res
    src = R.render(module, case["layout"])
    run = document_text(src, real_settings())
    if run.exc is not None:
        res.fail(exc_key(run.exc), repr(run.exc)[:300])
        return res
    exp = M.expected(module)
    kinds = {e["kind"] for e in exp}
    ends = False
    for d in docs:
        ls = [l for l in d["lines"] if l.strip()]
        if ls and (ls[-1].startswith("   ") or ls[-1].startswith("* ") or ls[-1].startswith("- ") or ls[-1].startswith("#. ")
                   or ls[-1].startswith(":")):
            ends = True
    has_members = any(e["dir"] == "py:class" and (e["ctors"] or e["methods"] or e["attrs"]) for e in exp)
    res.nontrivial = len(kinds) >= 3 and ends and has_members
    res.labels += ["kind:" + k for k in sorted(kinds)]
    if ends:
        res.labels.append("body-ends-in-list/literal/directive/field")
    if has_members:
        res.labels.append("class-with-members")
    if res.nontrivial:
        res.sample = {"source": short(src, 900)}
    doc, msgs = V.doctree(run.text)
    for lvl, txt in msgs:
        if lvl >= 3:
            res.fail(f"docutils-message-level-{lvl}", txt[:300])
    if any(lvl == 2 for lvl, _ in msgs):
        res.labels.append("docutils-warning-level-2")     # the property speaks of error-level messages only
    entry_cls = V.entry_node
    top = [c for c in doc.children if not isinstance(c, nodes.system_message)]
    if len(top) != 1 or not isinstance(top[0], nodes.section):
        res.fail("structure:not-one-section", f"document children: {[type(c).__name__ for c in doc.children]}")
        return res
    sec = top[0]
    kids = [c for c in sec.children if not isinstance(c, nodes.system_message)]
    if not kids or not isinstance(kids[0], nodes.title):
        res.fail("structure:title-missing", f"section starts with {type(kids[0]).__name__ if kids else None}")
        return res
    rest = kids[1:]
    foreign = [c for c in rest if not isinstance(c, entry_cls)]
    if foreign:
        res.fail("structure:stray-" + type(foreign[0]).__name__,
                 f"non-entry nodes at section level: {[type(c).__name__ for c in foreign][:5]}: {foreign[0].astext()[:120]!r}")
    entries = [c for c in rest if isinstance(c, entry_cls)]
    if not entries or entries[0]["dname"] != "module":
        res.fail("structure:module-not-first", f"first entry is {entries[0]['dname'] if entries else None}")
        return res
    got = [e["dname"] for e in entries[1:]]
    want = [e["dir"] for e in exp]
    if got != want:
        res.fail("structure:entry-sequence", f"expected {want} got {got}")
        return res
    # containment: markers, members
    def inner_entries(node):
        return [n for n in node.traverse(entry_cls) if n is not node]
    for e, node in zip(exp, entries[1:]):
        subs = inner_entries(node)
        want_members = [m["dir"] for grp in ("ctors", "methods", "attrs") for m in (e.get(grp) or [])]
        if [s["dname"] for s in subs] != want_members:
            res.fail("structure:members", f"{e['dir']} {e.get('name')!r}: expected nested {want_members} got {[s['dname'] for s in subs]}")
        if e.get("marker"):
            own = node.astext()
            if e["marker"] not in own:
                res.fail("containment:doc-outside-entry", f"marker {e['marker']} not inside its {e['dir']} node")
        for grp in ("ctors", "methods", "attrs"):
            for m in (e.get(grp) or []):
                if m.get("marker"):
                    holders = [s for s in subs if m["marker"] in s.astext()]
                    if len(holders) != 1:
                        res.fail("containment:member-doc", f"marker {m['marker']} inside {len(holders)} member nodes")
        # admonitions and generated fields inside the entry
        adm = [n for n in node.traverse(lambda x: isinstance(x, (nodes.note, nodes.warning))) ]
        n_exp_adm = len(e.get("adm") or []) + sum(len(m.get("adm") or []) for grp in ("ctors", "methods") for m in (e.get(grp) or []))
        n_doc_adm = sum(1 for it, _, _ in G.walk(module["items"]) if False)
        if len([a for a in adm if a.astext().startswith(("This is", "This member", "This variable"))]) != n_exp_adm:
            res.fail("containment:admonition", f"{e['dir']} {e.get('name')!r}: expected {n_exp_adm} generated admonitions inside the entry")
        for grp in ("ctors", "methods"):
            for m in (e.get(grp) or []):
                cands = [sn for sn in subs if sn["dname"] == "py:method" and sn["darg"].startswith(m["name"] + "(")]
                want_fields = [n for n, _ in m["fields"]]
                if want_fields and cands:
                    ok = False
                    for sn in cands:
                        have = [f.children[0].astext() for f in sn.traverse(nodes.field)]
                        if all(w in have for w in want_fields):
                            ok = True
                    if not ok:
                        res.fail("containment:method-fields", f"{e['name']}.{m['name']}: generated fields {want_fields} are not field "
                                                              f"nodes inside the method entry")
        if e["dir"] == "data":
            names = [f.children[0].astext() for f in node.traverse(nodes.field)]
            for want_f, _ in e["fields"]:
                if want_f not in names:
                    res.fail("containment:field-outside-entry", f"data {e['name']!r}: field {want_f!r} not inside its entry (has {names})")
    text_all = doc.astext()
    for e in exp:
        for m in [e] + [m for grp in ("ctors", "methods", "attrs") for m in (e.get(grp) or [])]:
            if m.get("marker") and text_all.count(m["marker"]) != 1:
                res.fail("containment:marker-count", f"marker {m['marker']} occurs {text_all.count(m['marker'])} times")
    return res


def describe(case):
    return {"source": R.render(_fix_markers(case["module"]), case["layout"])}
