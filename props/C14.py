"""C14 index.rst toctrees are closed and complete."""
import os

from hypothesis import strategies as st

from vlib import gen_tree as T, sandbox as S, rstview as V
from vlib.harness import Result
from .common import exc_key
from . import C15

ID = "C14"
LEVEL = "exploration"
RULE = ("union of C13 trees and C15 pattern sets: directory trees x recursive on/off x auto-exclusion on/off x prefix x 0..4 "
        "exclude patterns (so that subdirectories are pattern-excluded, auto-excluded, empty after exclusion, or nested below "
        "directories without CMake files) x directory-listing permutations x output location (absolute, relative, nested below the input root), default separator; oracle = closure invariant "
        "computed from the output tree alone: every index.rst has one toctree with pairwise distinct entries; its file "
        "entries equal the stems of the pages present in that output directory; in recursive mode its '<sub>/index.rst' "
        "entries equal the subdirectories holding an index.rst (none in non-recursive mode); every target exists; every "
        "page and index is reachable from the top index.rst; titles name the directory (top: prefix). Where the walk "
        "model is unambiguous the indexed directories also equal the model's processed directories. Non-trivial: >=1 "
        "subdirectory that is excluded / auto-excluded / empty after exclusion and >=1 that is kept; distinct by SHA-1 "
        "of the case")
RULE_MORE = 'output locations of C13; an earlier run of the same command line without -r or with another prefix into the same output; symlinked subdirectory as in C13; at least two subdirectories at the top. Later: input given through a differently named symlink; file links. (round 10) or of the same tree without any exclusion pattern, into another output directory.'
ASSUMPTIONS = ["default module_path_separator", "the input directory itself is not excluded and holds a .cmake file when "
               "auto-exclusion is on"]
BUDGET = {"quick": {"shards": 8, "examples": 200}, "thorough": {"shards": 16, "examples": 2500}}


def strategy(tier):
    depth = 3 if tier == "quick" else 4
    first = ["dir/", "dir", "absdir", "**/dir/", "allcmake", "absdir/"]          # kinds that remove whole subdirectories come first
    kinds = first + [k for k in C15.PATTERN_KINDS if k != "input" and k not in first]
    pat = st.tuples(st.sampled_from(kinds), st.integers(0, 30), st.sampled_from(["e", "s"]))
    return st.fixed_dictionaries({
        "tree": T.dir_tree(depth, max_files=4, max_dirs=3, mixed_case=True, min_dirs=2),
        "patterns": st.lists(pat, min_size=0, max_size=4),
        "recursive": st.sampled_from([True, True, True, False]),
        "auto": st.booleans(),
        "prefix": st.one_of(st.none(), st.sampled_from(["pfx", "My.Proj", "cmake/modules", "pkg/", "a.b."])),
        "order": st.one_of(st.none(), st.lists(st.integers(0, 11), min_size=1, max_size=8)),
        # outside the carve-out (directories whose CMake files all have a non-lower-case extension, auto-exclusion on)
        # only the closure invariant is asserted: it needs no model of which directories are processed
        "carveout": st.sampled_from([True, True, False]),
        # output locations of C13: absolute, relative to the cwd, nested directly below the input root (not pre-existing)
        "outloc": st.sampled_from(["abs", "nested", "abs", "rel"]),
        # an earlier run of the same command line, minus -r or with another prefix, already filled the output directory
        "prior": st.sampled_from([None, None, "no-filters", "no-filters", "non-recursive", "other-prefix"]),
        # a symbolic link 'zz_alias' to the first subdirectory, with input.follow_symlinks off (default) or on
        "alias": st.sampled_from([None, None, "nofollow", "follow"]),
        # a symbolic link in the tree to a CMake file stored outside it (a processed file like any other)
        "filelink": st.sampled_from([False, False, True]),
        # the input directory is given through a symbolic link with a name of its own (the default prefix is the name given)
        "inlink": st.sampled_from([False, False, True]),
    })


def prepare_tree(case):
    tree = case["tree"]
    if case["auto"] and case.get("carveout", True):
        tree = T.ensure_lowercase_cmake(tree)
    if case["auto"]:
        if not T.has_lower_cmake(tree):
            tree = {"files": dict(tree["files"], **{"top.cmake": 0}), "dirs": tree["dirs"]}
    return T.fill(tree)


def parse_index(text):
    page = V.Page(text)
    toc = [n for n in page.top if n.name == "toctree"]
    return page, toc


def evaluate(case):
    res = Result()
    if case.get("prior") == "no-filters":
        case = dict(case, auto=True)       # the earlier unfiltered run matters where directories are judged by their content
    tree = prepare_tree(case)
    with S.Sandbox("c14") as sb:
        inp = sb.path("in")
        S.materialize(tree, inp)
        if case.get("filelink"):
            content = "#[[[\n# Stored outside the tree.\n#]]\nfunction(shared_outside a)\nendfunction()\n"
            os.makedirs(sb.path("else_shared"), exist_ok=True)
            with open(sb.path("else_shared", "shared.cmake"), "w") as fh:
                fh.write(content)
            sub = sorted(tree["dirs"])[0] if tree["dirs"] and not sorted(tree["dirs"])[0].startswith("_out") else None
            where = os.path.join(inp, sub) if sub and len(tree["files"]) % 2 == 0 else inp
            os.symlink(sb.path("else_shared", "shared.cmake"), os.path.join(where, "zz_flink.cmake"))
            res.labels.append("symlinked-file")
            if where == inp:
                tree = {"files": dict(tree["files"], **{"zz_flink.cmake": content}), "dirs": tree["dirs"]}
            else:
                tree = {"files": tree["files"], "dirs": dict(tree["dirs"], **{sub: {"files": dict(tree["dirs"][sub]["files"], **{"zz_flink.cmake": content}),
                                                                                  "dirs": tree["dirs"][sub]["dirs"]}})}
        inname = "in"
        if case.get("inlink"):
            inname = "cmake_modules"
            os.symlink("in", sb.path(inname))
            inp = sb.path(inname)
            res.labels.append("input-is-a-symlink")
        alias = case.get("alias") if tree["dirs"] else None
        if alias:
            import copy
            target = sorted(tree["dirs"])[0]
            os.symlink(target, os.path.join(inp, "zz_alias"))
            os.symlink(target, os.path.join(inp, "zz_alias2"))       # two links, adjacent in sorted listings
            res.labels.append("symlinked-directory:" + alias)
            if alias == "follow":
                # followed links are ordinary directories with the target's content; links that are not followed are not processed
                tree = {"files": tree["files"], "dirs": dict(tree["dirs"], zz_alias=copy.deepcopy(tree["dirs"][target]),
                                                              zz_alias2=copy.deepcopy(tree["dirs"][target]))}
        cwd = sb.path("cwd")
        pats = C15.build_patterns(case, tree, inp)
        plist = [p for p, _ in pats]
        excluded = T.make_excluded(plist, inp)
        if any(T.pattern_matches(p, inp, True) for p in plist):
            res.labels.append("discarded:input-excluded")
            return res
        if case["auto"] and not any(n.endswith(".cmake") and not excluded(n, False) for n in tree["files"]):
            # carve-out of the property: the input directory keeps a .cmake file when auto-exclusion is on
            res.labels.append("discarded:input-dir-empty-after-exclusion")
            return res
        cfg = sb.path("settings.yaml")
        with open(cfg, "w") as f:
            f.write("input:\n  auto_exclude_directories_without_cmake: %s\n" % ("true" if case["auto"] else "false"))
            if alias:
                f.write("  follow_symlinks: %s\n" % ("true" if alias == "follow" else "false"))
            s_pats = [p for p, s in pats if s == "s"]
            if s_pats:
                f.write("  exclude_filters:\n" + "".join(f"    - {p!r}\n" for p in s_pats))
        out = sb.path("out")
        out_arg = out
        if case.get("outloc") == "nested":
            out = out_arg = os.path.join(inp, "_out")
        elif case.get("outloc") == "rel":
            out, out_arg = os.path.join(cwd, "rel/out"), "rel/out"
        res.labels.append("out:" + (case.get("outloc") or "abs"))
        argv = [inp, "-o", out_arg, "-s", cfg]
        if case["recursive"]:
            argv.append("-r")
        if case["prefix"] is not None:
            argv += ["-p", case["prefix"]]
        for p, s in pats:
            if s == "e":
                argv += ["-e", p]
        if case.get("prior") and case.get("outloc") != "nested":
            res.labels.append("prior-run:" + case["prior"])
            prior_argv = [a for a in argv if a != "-r"] if case["prior"] == "non-recursive" else argv + ["-p", "EarlierPrefix"]
            if case["prior"] == "no-filters":
                # the same tree was documented before in this process without any exclusion pattern, into another output
                cfg0 = sb.path("settings0.yaml")
                with open(cfg0, "w") as f:
                    f.write("input:\n  auto_exclude_directories_without_cmake: %s\n" % ("true" if case["auto"] else "false"))
                    if alias:
                        f.write("  follow_symlinks: %s\n" % ("true" if alias == "follow" else "false"))
                prior_argv = [inp, "-o", sb.path("out_earlier"), "-s", cfg0] + (["-r"] if case["recursive"] else [])
            S.run_main(prior_argv, cwd=cwd)
        run = S.run_main(argv, cwd=cwd, order=case["order"])
        if run.exc is not None or run.code != 0:
            res.fail(exc_key(run.exc) if run.exc else f"exit-{run.code}", (repr(run.exc) + run.stderr)[-300:])
            return res
        got = S.snapshot(out) if os.path.isdir(out) else {}
        files = {p for p, v in got.items() if v[0] == "file"}
        indexes = {p for p in files if os.path.basename(p) == "index.rst"}
        pages = files - indexes
        prefix = case["prefix"] if case["prefix"] is not None else inname
        if "index.rst" not in indexes:
            res.fail("top-index-missing", f"no index.rst at the top of the output; files {sorted(files)[:6]}")
            return res
        reach_pages, reach_idx = set(), set()
        index_titles = {}
        todo = ["index.rst"]
        while todo:
            idx = todo.pop()
            if idx in reach_idx:
                continue
            reach_idx.add(idx)
            d = os.path.dirname(idx)
            with open(os.path.join(out, idx), encoding="utf-8") as fh:
                page, toc = parse_index(fh.read())
            if len(toc) != 1:
                res.fail("toctree-count", f"{idx}: {len(toc)} toctree directives")
                continue
            entries = [l.strip() for l in toc[0].raw if l.strip()]
            if len(entries) != len(set(entries)):
                res.fail("toctree-duplicate-entry", f"{idx}: {entries}")
            sub_entries = [e for e in entries if e.endswith("/index.rst")]
            file_entries = [e for e in entries if not e.endswith("/index.rst")]
            here_pages = {os.path.basename(p)[:-4] for p in pages if os.path.dirname(p) == d}
            for e in sorted(set(file_entries) - here_pages):
                res.fail("toctree-entry-without-page", f"{idx}: entry {e!r} has no page; pages here {sorted(here_pages)}")
            for e in sorted(here_pages - set(file_entries)):
                res.fail("page-without-toctree-entry", f"{idx}: page {e!r}.rst is not listed; entries {file_entries}")
            here_subs = {p.split("/")[-2] for p in indexes if p != idx and os.path.dirname(os.path.dirname(p)) == d and p.count("/") == idx.count("/") + 1}
            listed_subs = {e[:-len("/index.rst")] for e in sub_entries}
            if not case["recursive"] and sub_entries:
                res.fail("subdir-entry-in-non-recursive-mode", f"{idx}: {sub_entries}")
            for e in sorted(listed_subs - here_subs):
                res.fail("toctree-entry-without-index", f"{idx}: entry {e}/index.rst has no generated target")
            for e in sorted(here_subs - listed_subs):
                res.fail("index-without-toctree-entry", f"{idx}: {e}/index.rst exists but is not listed")
            for e in listed_subs & here_subs:
                todo.append((d + "/" if d else "") + e + "/index.rst")
            for e in file_entries:
                reach_pages.add((d + "/" if d else "") + e + ".rst")
            # title
            index_titles.setdefault(page.title, []).append(idx)
            want_title = prefix if d == "" else None
            if d == "":
                if page.title != prefix:
                    res.fail("index-title-top", f"top index title {page.title!r}, expected the prefix {prefix!r}")
            else:
                rel = d.replace("/", ".")
                if page.title is None or not (page.title.endswith(d) or page.title.endswith(rel)):
                    res.fail("index-title-sub", f"{idx}: title {page.title!r} does not name the directory {d!r}")
                elif not page.title.startswith(prefix + "."):
                    # "names the directory" below "the prefix for the top directory": prefix, separator, relative path
                    res.fail("index-title-sub", f"{idx}: title {page.title!r} does not start with the prefix {prefix!r} and the separator")
        for t, idxs in index_titles.items():
            if len(idxs) > 1:
                # a title names its directory: two directories cannot share one
                res.fail("index-title-not-distinct", f"title {t!r} used by {sorted(idxs)}")
        for p in sorted(pages - reach_pages):
            res.fail("page-unreachable", f"{p!r} is not reachable from the top index.rst")
        for p in sorted(indexes - reach_idx):
            res.fail("index-unreachable", f"{p!r} is not reachable from the top index.rst")
        # model comparison where unambiguous
        all_dirs = S.tree_dirs(tree)
        status = {}
        for d in all_dirs:
            node = S.subtree(tree, d)
            if excluded(d, True):
                status[d] = "pattern-excluded"
            elif case["auto"] and not T.has_lower_cmake(node):
                status[d] = "auto-excluded"
            elif case["auto"] and not any(n.endswith(".cmake") and not excluded(d + "/" + n, False) for n in node["files"]):
                status[d] = "empty-after-exclusion"
            else:
                status[d] = "kept"
        ambiguous = any(v == "empty-after-exclusion" for v in status.values())
        if case["auto"] and not case.get("carveout", True):
            mixed_only = [d for d in all_dirs if any(T.is_cmake(n) for n in S.subtree(tree, d)["files"])
                          and not T.has_lower_cmake(S.subtree(tree, d))]
            if mixed_only:
                ambiguous = True
                res.labels.append("outside-carveout:mixed-case-only-dir")
        if not ambiguous:
            _, pdirs, _ = T.expected_outputs(tree, case["recursive"], case["auto"], excluded)
            want_idx = {(d + "/" if d else "") + "index.rst" for d in pdirs}
            for p in sorted(want_idx - indexes):
                res.fail("index-missing-for-processed-dir", f"{p!r}; patterns {plist}")
            for p in sorted(indexes - want_idx):
                res.fail("index-for-unprocessed-dir", f"{p!r}; patterns {plist}")
        top_status = {status[d] for d in all_dirs}
        for v in sorted(top_status):
            res.labels.append("subdir:" + v)
        res.labels += [f"recursive:{case['recursive']}", f"auto:{case['auto']}"]
        res.nontrivial = case["recursive"] and "kept" in top_status and bool(top_status - {"kept"})
        if res.nontrivial:
            res.sample = {"dirs": status, "patterns": [p.replace(sb.root, "<sb>") for p in plist], "auto": case["auto"],
                          "indexes": sorted(indexes)}
    return res


def describe(case):
    tree = prepare_tree(case)
    return {"files": sorted(p for p, _ in S.tree_files(tree)), "dirs": S.tree_dirs(tree),
            "patterns": [(p, s) for p, s in C15.build_patterns(case, tree, "<input>")],
            "options": {k: case[k] for k in ("recursive", "auto", "prefix", "order")}}
