"""C10 Variable and option entries state type, default and help correctly."""
from hypothesis import strategies as st

from vlib import gen_cmake as G, render as R, model as M, rstview as V, compare as C
from vlib.cminx_run import document_text, real_settings
from vlib.harness import Result
from .common import exc_key, short

ID = "C10"
LEVEL = "exploration"
RULE = ("modules of set() commands with 0..5 values in every single-argument form (identifier, unquoted incl. escapes, "
        "quoted incl. empty string / embedded escaped quotes / leading-trailing spaces, variable reference, bracket "
        "argument, single characters) and option() commands with and without default, documented or not, at any "
        "position/nesting, command casing varied; oracle = reference model vs raw line view of the `.. data::` entries "
        "(name, type by value count, default as written, option note/help/default/bool). Non-trivial: a value list "
        "containing a quoted value with an escaped quote, an empty string, a bracket argument, a single character or "
        "an unquoted value ending in an escaped quote; distinct by SHA-1 of the case")
RULE_MORE = "values ending in ':' / '::', class / member / test contexts around the set() and option() commands. Later: literal tabs, NFKC-unstable characters; (round 10) characters str.splitlines() breaks on (FF, VT, FS, NEL, LS, PS) inside values and help texts."
ASSUMPTIONS = ["for a value containing a line break only the first line of the default is compared (the field is one line)",
               "for UNSET only the type field is constrained"]
BUDGET = {"quick": {"shards": 8, "examples": 250}, "thorough": {"shards": 16, "examples": 4000}}

VALUES = G.IDENT_T + G.UNQ_T + G.VAR_T + G.BRACKET_T + G.QUOTED_T + [
    '""', '"a\\"b@"', '"\\"@\\""', "x", "1", '"x"', '" lead@"', '"trail@ "', 'a@\\"', '\\"@', '"a@\\\\"', "a\\;b@", '"#[[@"',
    '":field: @"', '"*@*"', "ON", "[[]]", '"@\\n"',
    '"lit\ttab@"', '"a\t\tb @"', "[[x\t@]]", "m\u00b2@", '"\u2026@"', "\u2122@", "\ufb01@", "\uff38@", "Ns@::", '"My Lib@::"', "a@:", '"::"', "::", "`@`", "*@", "|@|", '"@\\\\"']


def strategy(tier):
    tricky = st.sampled_from(['"left\x0cright@"', '"nel\x85ls\u2028ps\u2029@"', '"vt\x0bfs\x1c@"', '""', '"a\\"b@"', '"\\"@\\""', "x", '"x"', 'a@\\"', '\\"@', "[[]]", "Ns@::", '"My Lib@::"', '" lead@"', '"a@\\\\"', '"two@\nlines"', '"cont@\\\nline"'])
    one = st.one_of(st.sampled_from(VALUES), tricky)
    vals = G.weighted((1, st.just([])), (3, st.lists(one, min_size=1, max_size=1)), (2, st.lists(one, min_size=2, max_size=5)))
    docline = G.weighted((4, G.benign_line()), (1, st.just("")),
                         (2, st.sampled_from(["See the :type: field below.", ":type: path", "The :Default value: is generated.",
                                              ":Default value: by hand", ":Help text: mine", "Mentions :Help text: inline."])))
    doc = st.fixed_dictionaries({"lines": st.lists(docline, max_size=4), "form": st.just("leader"), "mpos": st.integers(0, 8)})
    p = G.Profile(kinds={"set", "option", "func", "block", "generic", "class", "attr", "member", "test", "section"},
                  weights={"set": 4, "option": 4, "func": 2, "block": 2, "generic": 1, "class": 1, "attr": 1, "member": 1, "test": 1, "section": 1},
                  p_doc_mostly=True, set_values=vals, doc=doc,
                  option_help=st.sampled_from(['"Help\x0cfeed\u2028sep @"', '"Help\twith a tab @"', '"Help @"', "HELP@", '"help: with colon @"', '"he said \\"@\\""', "${help@}",
                                               '""', "[[bracket help @]]"]),
                  max_items=6 if tier == "quick" else 10, depth=2, dangling=False, groups=False, moddoc=False, dups=True)
    return st.fixed_dictionaries({"module": G.module(p), "layout": G.layout_choices(24), "twins": st.booleans(),
                                  "strip": st.sampled_from(["", "", "^_[a-zA-Z]*_", "[0-9]+", "^[A-Za-z]", "\\W"]),
                                  "help_is_doc": st.sampled_from([False, False, True])})


def with_twins(module):
    """After a documented set(name a b ...) with plain values add set(name ab ...): the same characters, other boundaries."""
    import copy
    mod = copy.deepcopy(module)

    def plain(v):
        return v and v[0] not in '"[$' and "\\" not in v and not v.endswith("]")

    def rec(items):
        out = []
        for it in items:
            out.append(it)
            if "body" in it:
                it["body"] = rec(it["body"])
            if it["k"] == "set" and it.get("doc") and len(it["values"]) >= 2 and plain(it["values"][0]) and plain(it["values"][1]):
                tw = copy.deepcopy(it)
                tw["values"] = [it["values"][0] + it["values"][1]] + it["values"][2:]
                tw["doc"] = {"lines": ["Twin of the previous command. TW" + it["doc"]["marker"]], "form": "leader",
                             "marker": "TW" + it["doc"]["marker"]} if it["doc"].get("marker") else copy.deepcopy(it["doc"])
                out.append(tw)
            if it["k"] in ("set", "option") and it.get("doc") and it["doc"].get("marker") and \
                    int("".join(ch for ch in it["doc"]["marker"] if ch.isdigit()) or 1) % 3 == 0:
                out.append(copy.deepcopy(it))          # the same declaration once more, word for word
            if it["k"] == "option" and it.get("doc") and it["default"] is not None and plain(it["help"]) and plain(it["default"]):
                tw = copy.deepcopy(it)
                tw["help"], tw["default"] = it["help"] + it["default"], None
                out.append(tw)
        return out
    mod["items"] = rec(mod["items"])
    return mod


def evaluate(case):
    res = Result()
    module = with_twins(case["module"]) if case.get("twins") else case["module"]
    if case.get("twins"):
        res.labels.append("twin-commands")
    if case.get("help_is_doc"):
        module = help_from_doc(module)
        res.labels.append("option-help-equals-doc")
    ms = M.MSettings(strip_function=case.get("strip", ""), strip_macro=case.get("strip", ""), strip_member=case.get("strip", ""))
    if case.get("strip"):
        res.labels.append("strip-regex-configured")
    src = R.render(module, case["layout"])
    sets = [it for it, _, _ in G.walk(module["items"]) if it["k"] == "set" and it["doc"]]
    opts = [it for it, _, _ in G.walk(module["items"]) if it["k"] == "option"]
    nt = False
    for it in sets:
        n = len(it["values"])
        res.labels.append("set:" + ("UNSET" if n == 0 else "str" if n == 1 else "list"))
        for v in it["values"]:
            if v == '""':
                res.labels.append("value:empty-string"); nt = True
            elif v.startswith('"') and '\\"' in v:
                res.labels.append("value:escaped-quote-in-quoted"); nt = True
            elif v.startswith("["):
                res.labels.append("value:bracket"); nt = True
            elif len(v) == 1:
                res.labels.append("value:single-char"); nt = True
            elif not v.startswith('"') and v.endswith('\\"'):
                res.labels.append("value:unquoted-ends-in-escaped-quote"); nt = True
    for it in opts:
        res.labels.append("option:" + ("default" if it["default"] is not None else "no-default") +
                          (":doc" if it["doc"] else ":undoc"))
    res.nontrivial = nt and bool(sets)
    if res.nontrivial:
        res.sample = {"source": short(src, 600)}
    run = document_text(src, real_settings(ms))
    if run.exc is not None:
        res.fail(exc_key(run.exc), repr(run.exc)[:300])
        return res
    page = V.Page(run.text)
    exp = M.expected(module)
    for key, detail in C.compare_entries(exp, page):
        kind = key.split(":")[1] if ":" in key else ""
        if kind in ("set", "option", "data") or key.startswith("extra:data"):
            res.fail(key, detail)
    return res


def help_from_doc(module):
    """The help string of a documented option repeats its doccomment word for word."""
    import copy
    mod = copy.deepcopy(module)
    for it, _, _ in G.walk(mod["items"]):
        if it["k"] == "option" and it.get("doc") and it["doc"]["lines"]:
            words = " ".join(l for l in it["doc"]["lines"] if l.strip())
            if words and '"' not in words and "\\" not in words:
                it["help"] = '"' + words + '"'
    return mod


def describe(case):
    module = with_twins(case["module"]) if case.get("twins") else case["module"]
    if case.get("help_is_doc"):
        module = help_from_doc(module)
    return {"source": R.render(module, case["layout"])}
