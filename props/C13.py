"""C13 Directory mode writes exactly one page per processed CMake file."""
import os

from hypothesis import strategies as st

from vlib import gen_tree as T, sandbox as S
from vlib.harness import Result
from .common import exc_key, short

ID = "C13"
LEVEL = "exploration"
RULE = ("directory trees (depth <=3, thorough <=5; empty directories, directories with only non-CMake files such as README, "
        "CMakeLists.txt, x.cmake.in, 'cmake', 'notcmake', mixed-case extensions next to a lower-case .cmake file, names with "
        "dots and dashes; no inherent page-name collisions) x recursive on/off x auto-exclusion on/off x prefix x output "
        "location (absolute, relative to a drawn cwd, nested directly below the input root) x a drawn directory-listing "
        "permutation; oracle: walk model written from the property text -> expected set of output files and "
        "directories must equal the actual output tree exactly, and each page must equal the page of a separate "
        "single-file run after removing the title lines and the module name. Non-trivial: depth >=2, >=1 directory "
        "without CMake files and >=1 non-CMake file whose name contains 'cmake'; distinct by SHA-1 of the case")
RULE_MORE = 'output directory prefilled with newer stale files under the names the run writes; a symbolic link to a subdirectory with input.follow_symlinks off / on (not followed = not processed, followed = an ordinary directory). Later: same path documented before the tree was filled; input through a symlinked parent; file links; two adjacent directory links. (round 10) the input below directories named `proj (copy)/a+b?`.'
ASSUMPTIONS = ["no exclude patterns (C15's domain)", "the input directory holds a .cmake file when auto-exclusion is on",
               "directory-listing orders are emulated by permuting os.scandir inside the harness process"]
BUDGET = {"quick": {"shards": 8, "examples": 80}, "thorough": {"shards": 16, "examples": 1500}}


def strategy(tier):
    depth = 3 if tier == "quick" else 5
    return st.fixed_dictionaries({
        "tree": T.dir_tree(depth, max_files=4, max_dirs=3),
        "recursive": st.sampled_from([True, True, True, False]),
        "auto": st.sampled_from([True, False]),
        "prefix": st.one_of(st.none(), st.sampled_from(["pfx", "My.Proj", "p q"])),
        "outloc": st.sampled_from(["nested", "rel", "abs", "nested", "rel"]),
        "order": st.one_of(st.none(), st.lists(st.integers(0, 11), min_size=1, max_size=8)),
        # the output directory was used before: it already holds (newer, different) files under the names this run writes
        "prefill": st.sampled_from([False, False, True]),
        # a symbolic link 'zz_alias' to the first subdirectory, with input.follow_symlinks off (default) or on
        "alias": st.sampled_from([None, None, None, "nofollow", "follow"]),
        # a symbolic link in the tree to a CMake file stored outside it (a processed file like any other)
        "filelink": st.sampled_from([False, False, True]),
        # the same process documented the same path before, when the subdirectories were still empty
        "warm": st.sampled_from([False, False, True]),
        # the input path passes through a symbolic link (a linked parent directory)
        "via_link": st.sampled_from([False, False, False, True]),
        "oddloc": st.sampled_from([False, True, False]),
    })


def prepare_tree(case):
    tree = case["tree"]
    if case.get("outloc") == "nested":
        # directories whose names merely extend the name of the nested output directory
        dirs = dict(tree["dirs"])
        dirs["_out-examples"] = {"files": {"ex.cmake": 0}, "dirs": {"more": {"files": {"deep.cmake": 1}, "dirs": {}}}}
        dirs["_out2"] = {"files": {"two.cmake": 2}, "dirs": {}}
        tree = {"files": tree["files"], "dirs": dirs}
    if case.get("warm") is not None and len(tree["files"]) % 2 == 1:
        # a backslash is an ordinary character of POSIX file names
        tree = {"files": dict(tree["files"], **{"we\\ird.cmake": 3}),
                "dirs": dict(tree["dirs"], **{"mod\\ules": {"files": {"inner.cmake": 2}, "dirs": {}},
                                              # glob metacharacters in directory names; a directory whose CMake files are dot-files
                                              "lib[core]": {"files": {"core.cmake": 1}, "dirs": {"what?": {"files": {"q.cmake": 0}, "dirs": {}}}},
                                              "a*b": {"files": {".hidden.cmake": 2}, "dirs": {}}})}
    if case["auto"]:
        tree = T.ensure_lowercase_cmake(tree)
        if not T.has_lower_cmake(tree):
            tree = {"files": dict(tree["files"], **{"top.cmake": 0}), "dirs": tree["dirs"]}
    return T.fill(tree)


def norm_page(text):
    lines = text.split("\n")
    nb = [i for i, l in enumerate(lines) if l.strip()]
    drop = set(nb[:3])
    out = []
    for i, l in enumerate(lines):
        if i in drop:
            continue
        if l.startswith(".. module:: "):
            l = ".. module:: <name>"
        out.append(l)
    return "\n".join(out)


def tree_depth(tree):
    return 1 + max([tree_depth(s) for s in tree["dirs"].values()], default=0)


def evaluate(case):
    res = Result()
    tree = prepare_tree(case)
    dirs_all = [""] + S.tree_dirs(tree)
    no_cmake_dirs = [d for d in dirs_all if not any(T.is_cmake(n) for n in S.subtree(tree, d)["files"])]
    lookalike = [p for p, _ in S.tree_files(tree) if "cmake" in os.path.basename(p).lower() and not T.is_cmake(os.path.basename(p))]
    res.nontrivial = tree_depth(tree) >= 3 and len(no_cmake_dirs) >= 1 and len(lookalike) >= 1
    res.labels += [f"recursive:{case['recursive']}", f"auto:{case['auto']}", f"out:{case['outloc']}",
                   "order:" + ("os" if case["order"] is None else "permuted")]
    if any(not n.endswith(".cmake") for p, _ in S.tree_files(tree) for n in [os.path.basename(p)] if T.is_cmake(n)):
        res.labels.append("mixed-case-extension")
    if lookalike:
        res.labels.append("cmake-lookalike-file")
    if no_cmake_dirs:
        res.labels.append("dir-without-cmake")
    with S.Sandbox("c13") as sb:
        inp = sb.path("in")
        if case.get("oddloc") and not case.get("via_link"):
            # the absolute location of the input has characters that are special in regular expressions and glob patterns
            inp = sb.path("proj (copy)", "a+b?", "in")
            os.makedirs(os.path.dirname(inp))
            res.labels.append("input-below-directories-with-regex-metacharacters")
        if case.get("warm"):
            res.labels.append("same-path-documented-before-the-tree-was-filled")

            def skeleton(t, top=True):
                return {"files": dict(t["files"]) if top else {}, "dirs": {k: skeleton(v, False) for k, v in t["dirs"].items()}}
            S.materialize(skeleton(tree), inp)
            S.run_main([inp, "-r", "-o", sb.path("warm-out")], cwd=sb.path("cwd"))
            S.run_main([inp, "-o", sb.path("warm-out2")], cwd=sb.path("cwd"))
        S.materialize(tree, inp)
        if case.get("filelink"):
            content = "#[[[\n# Stored outside the tree.\n#]]\nfunction(shared_outside a)\nendfunction()\n"
            os.makedirs(sb.path("else_shared"), exist_ok=True)
            with open(sb.path("else_shared", "shared.cmake"), "w") as fh:
                fh.write(content)
            sub = sorted(tree["dirs"])[0] if tree["dirs"] and not sorted(tree["dirs"])[0].startswith("_out") else None
            where = os.path.join(inp, sub) if sub and len(tree["files"]) % 2 == 0 else inp
            os.symlink(sb.path("else_shared", "shared.cmake"), os.path.join(where, "zz_flink.cmake"))
            res.labels.append("symlinked-file")
            if where == inp:
                tree = {"files": dict(tree["files"], **{"zz_flink.cmake": content}), "dirs": tree["dirs"]}
            else:
                tree = {"files": tree["files"], "dirs": dict(tree["dirs"], **{sub: {"files": dict(tree["dirs"][sub]["files"], **{"zz_flink.cmake": content}),
                                                                                  "dirs": tree["dirs"][sub]["dirs"]}})}
        alias = case.get("alias") if [d for d in tree["dirs"] if not d.startswith("_out")] else None
        if alias:
            import copy
            target = sorted(d for d in tree["dirs"] if not d.startswith("_out"))[0]
            os.symlink(target, os.path.join(inp, "zz_alias"))
            os.symlink(target, os.path.join(inp, "zz_alias2"))       # two links, adjacent in sorted listings
            res.labels.append("symlinked-directory:" + alias)
            if alias == "follow":
                # followed links are ordinary directories with the target's content; links not followed are not processed
                tree = {"files": tree["files"], "dirs": dict(tree["dirs"], zz_alias=copy.deepcopy(tree["dirs"][target]),
                                                              zz_alias2=copy.deepcopy(tree["dirs"][target]))}
        if case.get("via_link"):
            os.symlink(sb.root, sb.path("zz_parent_link"))
            inp = os.path.join(sb.path("zz_parent_link"), "in")
            res.labels.append("input-through-symlinked-parent")
        cwd = sb.path("cwd")
        if case["outloc"] == "abs":
            out_arg, out_abs = sb.path("out"), sb.path("out")
        elif case["outloc"] == "rel":
            out_arg, out_abs = "rel/out", os.path.join(cwd, "rel/out")
        else:
            out_arg = out_abs = os.path.join(inp, "_out")
        cfg = sb.path("settings.yaml")
        with open(cfg, "w") as f:
            f.write("input:\n  auto_exclude_directories_without_cmake: %s\n" % ("true" if case["auto"] else "false"))
            if alias:
                f.write("  follow_symlinks: %s\n" % ("true" if alias == "follow" else "false"))
        argv = [inp, "-o", out_arg, "-s", cfg]
        if case["recursive"]:
            argv.append("-r")
        if case["prefix"] is not None:
            argv += ["-p", case["prefix"]]
        want_files, pdirs, pfiles = T.expected_outputs(tree, case["recursive"], case["auto"])
        if case.get("prefill") and case["outloc"] != "nested":
            res.labels.append("output-prefilled-with-stale-pages")
            for k, rel in enumerate(sorted(want_files)):
                if k % 3 != 2:
                    pth = os.path.join(out_abs, rel)
                    os.makedirs(os.path.dirname(pth), exist_ok=True)
                    with open(pth, "w") as fh:
                        fh.write("STALE PAGE\n==========\n\nleft over from an earlier run\n" * 3)
        run = S.run_main(argv, cwd=cwd, order=case["order"])
        if run.exc is not None or run.code != 0:
            res.fail(exc_key(run.exc) if run.exc else f"exit-{run.code}", (repr(run.exc) + run.stderr)[-300:])
            return res
        got = S.snapshot(out_abs) if os.path.isdir(out_abs) else {}
        got_files = {p for p, v in got.items() if v[0] != "dir"}
        got_dirs = {p for p, v in got.items() if v[0] == "dir"}
        want_dirs = set()
        for p in want_files:
            while "/" in p:
                p = p.rsplit("/", 1)[0]
                want_dirs.add(p)
        for p in sorted(got_files - want_files):
            kind = "index" if p.endswith("index.rst") else "page"
            res.fail(f"extra-{kind}", f"unexpected output file {p!r}")
        for p in sorted(want_files - got_files):
            kind = "index" if p.endswith("index.rst") else "page"
            res.fail(f"missing-{kind}", f"expected output file {p!r} was not written")
        for p in sorted(got_dirs - want_dirs):
            res.fail("extra-directory", f"unexpected output directory {p!r}")
        for p in sorted(got_files & want_files):
            if p.endswith("index.rst"):
                with open(os.path.join(out_abs, p), encoding="utf-8") as fh:
                    if "STALE PAGE" in fh.read():
                        res.fail("stale-index-kept", f"{p!r} still holds the content of an earlier run")
        # content relation with single-file runs
        single = sb.path("single")
        for f in pfiles:
            page = stem_rst = T.stem_of(f) + ".rst"
            if page not in got_files:
                continue
            r1 = S.run_main(["-o", single, os.path.join(inp, f)], cwd=cwd)
            sp = os.path.join(single, os.path.basename(stem_rst))
            if r1.code != 0 or not os.path.exists(sp):
                res.fail("single-file-run-failed", f"{f}: exit {r1.code}")
                continue
            with open(sp, encoding="utf-8") as fh:
                a = fh.read()
            with open(os.path.join(out_abs, page), encoding="utf-8") as fh:
                b = fh.read()
            if norm_page(a) != norm_page(b):
                res.fail("page-content-differs-from-single-run", f"{f}")
        if res.nontrivial:
            res.sample = {"tree": sorted(p for p, _ in S.tree_files(tree)), "dirs": S.tree_dirs(tree),
                          "argv": [a.replace(sb.root, "<sb>") for a in argv], "written": sorted(got_files)}
    return res


def describe(case):
    tree = prepare_tree(case)
    return {"files": sorted(p for p, _ in S.tree_files(tree)), "dirs": S.tree_dirs(tree),
            "options": {k: case[k] for k in ("recursive", "auto", "prefix", "outloc", "order")}}
