"""C04 Layout, comments and command-name case do not affect the output (metamorphic)."""
from hypothesis import strategies as st

from vlib import gen_cmake as G, render as R, ref_lexer as L
from vlib.cminx_run import document_text, real_settings
from vlib.harness import Result
from .common import exc_key, short

ID = "C04"
LEVEL = "exploration"
RULE = ("a module AST (all kinds, nesting <=3, docs with leading spaces / empty lines / non-ASCII, optional @module "
        "doccomment) rendered in the canonical layout and in 1-3 drawn layouts with the same token sequence "
        "(inter-token whitespace, blank lines, line comments of all four lexer shapes, bracket comments level 0-3 "
        "containing code and delimiter look-alikes, comments between doccomment and command and inside argument "
        "lists, uniform space/tab re-indentation of doccomment blocks, per-occurrence command-name casing, missing "
        "final newline) plus a CRLF variant; oracle: byte equality of the reST (CRLF: equality after deleting CR and "
        "whitespace-only lines). Non-trivial: the drawn layouts show >=3 of {comment in argument list, comment glued to "
        "an argument, comment between doccomment and command, case change of a closing/other command, tab "
        "re-indentation of a doccomment, CRLF}; distinct by SHA-1 of the case")
RULE_MORE = 'doc lines holding form feed / VT / FS / NEL / LS / PS; unquoted arguments ending in an escaped blank or tab (the layout may break the line right after them). Later: interior tabs; lines ending in ] [ #; text on the opener line; completely empty lines inside indented blocks; commented-out definitions between doccomment and command.'
ASSUMPTIONS = ["layout rules of vlib/render.py keep the token sequence (same AST, same argument strings) and are accepted "
               "by CMake (re-checked mechanically by C05's cmake differential)"]
BUDGET = {"quick": {"shards": 4, "examples": 250}, "thorough": {"shards": 16, "examples": 3000}}


def _doc():
    line = st.one_of(G.benign_line(), G.benign_line(), st.just(""),
                     st.sampled_from(["  indented continuation", "    deeper é", ":param x: text", "* bullet", "#hash start",
                                      "[bracket] start", "trailing spaces   ", "漢字 text", ".. note:: inline",
                                      # characters str.splitlines() treats as line boundaries, inside one comment line
                                      ":type names: list[str]", "usage: cmd [opt]", "ends with a hash #", "KEYS[<n>]", "opens [", "low\tonly -Wall", "  col1\tcol2\t\tcol3", "Form\x0cfeed inside", "Next\x85line char", "Line\u2028separator and\u2029paragraph", "Vt\x0band fs\x1cgs\x1d"]))
    return st.fixed_dictionaries({"lines": st.lists(line, max_size=5), "form": st.sampled_from(["leader", "leader", "leader", "bare"]),
                                  "mpos": st.integers(0, 8),
                                  "opener": st.sampled_from([None, None, None, "Brief.  Two blanks and a\ttab here", "x  y"]),
                                  "empty_bare": st.sampled_from([False, False, True])})


def strategy(tier):
    multi = st.lists(st.sampled_from(['"cont @\\\nnext"', '"nl @\nnext"', '"two @\\\nmore\\\nlines"']), min_size=1, max_size=1)
    # unquoted arguments ending in an escaped blank: the blank belongs to the argument even when a line break follows
    pool = G.SET_VALUE_T + ["end@\\ ", "tab@\\\t", "\\ @\\ "]
    p = G.Profile(doc=_doc(), max_items=6 if tier == "quick" else 10, depth=3, arg_pool=pool,
                  set_values=G.weighted((3, G.arglist(0, 4, pool)), (1, multi)))
    return st.fixed_dictionaries({
        "module": G.module(p),
        "layouts": st.lists(st.lists(st.integers(0, 23), min_size=1, max_size=48), min_size=1, max_size=3),
        "crlf": st.booleans(),
        "eof_newline": st.booleans(),
    })


def _norm_crlf(text):
    return [l for l in text.replace("\r", "").split("\n") if l.strip() != ""]


def evaluate(case):
    res = Result()
    module = case["module"]
    settings = real_settings()
    canon = R.render(module, [])
    base = document_text(canon, settings)
    feats = set()
    if base.exc is not None:
        res.fail("canonical:" + exc_key(base.exc), repr(base.exc)[:300])
        return res
    def tokens(text):
        lx = L.lex(text)
        if lx.error is not None:
            return ("error", str(lx.error))
        return [(c.name.lower(), c.flat()) for c in lx.commands]
    canon_tokens = tokens(canon)
    for i, lay in enumerate(case["layouts"]):
        src = R.render(module, lay, eof_newline=case["eof_newline"] or i > 0, features=feats)
        # soundness guard: both layouts must have the same token sequence according to the reference lexer
        if tokens(src) != canon_tokens:
            res.fail("HARNESS:layouts-differ-in-tokens", f"layout {i} changes the token sequence (renderer bug)")
            continue
        run = document_text(src, settings)
        if run.exc is not None:
            res.fail("variant:" + exc_key(run.exc), f"layout {i}: {run.exc!r}"[:300])
            continue
        if run.text != base.text:
            a, b = base.text.split("\n"), run.text.split("\n")
            j = 0
            while j < min(len(a), len(b)) and a[j] == b[j]:
                j += 1
            kind = "line-differs"
            if len(a) != len(b):
                kind = "line-count"
            ea = a[j] if j < len(a) else "<end>"
            eb = b[j] if j < len(b) else "<end>"
            if ea.startswith(".. ") or eb.startswith(".. "):
                kind = "entry-heading"
            elif ea.strip() == eb.strip():
                kind = "indentation"
            res.fail("layout-changes-output:" + kind, f"layout {i}: first difference at line {j}: {ea!r} vs {eb!r}")
    if case["crlf"]:
        feats.add("crlf")
        lay = case["layouts"][0]
        src = R.render(module, lay).replace("\n", "\r\n")
        run = document_text(src, settings)
        if run.exc is not None:
            res.fail("crlf:" + exc_key(run.exc), repr(run.exc)[:300])
        elif _norm_crlf(run.text) != _norm_crlf(base.text):
            a, b = _norm_crlf(base.text), _norm_crlf(run.text)
            j = 0
            while j < min(len(a), len(b)) and a[j] == b[j]:
                j += 1
            res.fail("crlf-changes-output", f"first difference at non-blank line {j}: "
                                            f"{a[j] if j < len(a) else '<end>'!r} vs {b[j] if j < len(b) else '<end>'!r}")
    if not case["eof_newline"]:
        feats.add("no-final-newline")
    res.labels += sorted(feats)
    interesting = feats & {"comment-in-args", "comment-glued-to-arg", "comment-between-doc-and-command", "case:closing",
                           "case:other", "doc-tab-indent", "crlf"}
    res.nontrivial = len(interesting) >= 3 and len(module["items"]) >= 1
    if res.nontrivial:
        res.sample = {"canonical": short(canon, 400), "variant": short(R.render(module, case["layouts"][0]), 700)}
    return res


def describe(case):
    out = {"canonical": R.render(case["module"], [])}
    for i, lay in enumerate(case["layouts"]):
        out[f"layout{i}"] = R.render(case["module"], lay)
    return out
