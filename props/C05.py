"""C05 Every valid CMake file is accepted, with CMake's argument boundaries."""
import json
import multiprocessing
import os
import subprocess

from hypothesis import strategies as st

from vlib import gen_cmake as G, render as R, model as M, rstview as V, ref_lexer as L
from vlib.cminx_run import document_text, real_settings, parse_commands, scratch_dir
from vlib.harness import Result, HarnessError, digest
from .common import exc_key, short

ID = "C05"
LEVEL = "exploration"
RULE = ("(1) grammar-derived files: a prelude of no-op functions followed by 1..14 invocations whose arguments cover every "
        "form of cmake-language(7) and every 'special elsewhere' character inside every form (# ; [ ] $ @ < > in quoted / "
        "bracket / escaped-unquoted), all escape sequences, quoted continuations and embedded newlines, bracket levels 0-3 "
        "with near-miss closers, nested parentheses to depth 3, comments adjacent to arguments, non-ASCII text, CRLF, "
        "missing final newline, command names taken from CMinx's own vocabulary; oracle (a) CMinx's parse tree flattened == "
        "the generator's argument list, (b) for a deterministic sample the normalised list == the args of `cmake --trace "
        "--trace-format=json-v1 -P` (CMake rejecting or disagreeing = generator-soundness failure, exit 2 above 0.5%), (c) "
        "Documenter.process() completes and documented generic commands show the arguments in order; (2) the 977 files "
        "under /usr/share/cmake-3.25: processed without error unless the reference lexer rejects the file; per-command "
        "argument boundaries == reference lexer (legacy commands skipped and counted); (3) the reference lexer is itself "
        "compared with CMake on every sampled file. Non-trivial (1): >=3 argument forms and one of {escape, bracket level "
        ">=1, nested parentheses, non-ASCII, comment adjacent to an argument}; distinct by SHA-1 of the case")
RULE_MORE = "dispatch-colliding command names as in C02; known commands (set, option, cpp_*, ct_*) spelled lower/UPPER/Title case with doccomments; one-line doccomment-shaped comments '#[[[ text #]]' at the end of the file. (round 10) documented generic commands whose group nests 150 / 350 / 600 levels deep, documented by a fresh interpreter."
ASSUMPTIONS = ["CMake 3.25.1 (`cmake -P`, trace) is the lexical judge; only executed commands are traced, so files are flat "
               "sequences of calls to prelude-defined no-op functions", "legacy unquoted arguments are outside the guarantee",
               "sources are UTF-8 without BOM"]
BUDGET = {"quick": {"shards": 4, "examples": 200}, "thorough": {"shards": 16, "examples": 3000}}

CMAKE = "/usr/bin/cmake"
CORPUS = "/usr/share/cmake-3.25"

# command names: ordinary ones and names from CMinx's own vocabulary (dispatch is by name)
CMDS = ["cmd_a", "CMD_B", "_c9", "Do_It", "generic_command", "process_docs", "documented", "consumed", "settings", "module",
        "clean_doc_lines", "add_custom_thing", "cmake_parse_args", "ct_add_tests", "cpp_classes", "set_", "options", "end"]
AT = "⟨AT⟩"

UNQ = ["a@", "fn_@", "a-@.b", "@", "x@/y", "-D@=1", "k@=v", "=@", "a@:b", "<@>", "a@,b", "é@ü", "x@*", "a\\ b@", "\\(@\\)", "\\#@",
       "\\\"@", "\\\\@", "a\\;b@", "a;b@", "\\t@", "\\n@\\r", "\\$@", "\\" + AT + "@", AT + "VAR@" + AT, "a[@", "@]", "a[[@]]", "[x@",
       "[=x@", "a@=[b", "$<@>", "$ENV{E@}", "${v@}", "${${n@}}", "pre${v@}post", "a@\\ ", "漢字@", "\\[@", "\\]@", "~@", "a@'b", "`@`",
       "a@|b", "&@", "%@%", "!@", "^@", "{@}", "a@?",
       "\ufeff", "a\ufeff@", "ff\x0c@", "vt\x0b@x", "nel\x85@", "ls\u2028@", "ps\u2029@", "nbsp\xa0@", "zw\u200b@", "fs\x1c@"]
QUO = ['"first line @\n#[[[ looks like a doccomment opener, inside a string"', '"q@"', '"two words @"', '"a;b;@"', '"#@"', '"# ; [ ] $ ' + AT + ' < > ( ) @"', '"@ ${v}"', '"esc\\"@"', '"(@)"', '"[[@]]"',
       '" @ "', '"tab\\t@\\n\\r\\;"', '"$<@>"', '"ü漢@"', '""', '"\\\\@"', '"\\(\\)\\#@"', '"line1 @\\\nline2"', '"a@\nb"',
       '"#[[ not a comment @ ]]"', '"#[[[ not doc @"', '"\\ @"', '"a@\\\r\nb"', '"' + AT + '@' + AT + '"', '"\\$@"', '"]]@"', '"[=[@"', '"lit\ttab  @"', '"trailing space @ "', '"ff\x0c @"',
       '"ls\u2028 nel\x85 @"', '"vt\x0b@"']
BRK = ["[[first @\n#[[[ inside a bracket argument\n]]", "[[b@]]", "[=[b@]=]", "[=[x]]@]=]", "[[b @ c]]", "[==[]=]@]==]", "[[(@]]", '[["@]]', "[[#@]]", "[[\n@\nline]]", "[=[\n]]@]=]",
       "[===[ ]==] ]=] ]] @ ]===]", "[[${v@} \\n \\x]]", "[[]]", "[=[]=]", "[[a@]b]]", "[=[a@]=b]=]", "[[ü漢@]]", "[[#[[@]]",
       "[=[[[@]]]=]", "[[;@;]]", "[[\t@ \t]]", "[[  @  ]]", "[[ff\x0c@\u2028]]"]
POOL = UNQ + UNQ + QUO + BRK


def all_cmds():
    """user commands whose names collide with the aggregator's `process_<name>` dispatch (read from the tree under test) first"""
    from vlib.cminx_run import dispatch_collisions
    return [c for c in dispatch_collisions() if c not in CMDS] + CMDS


def strategy(tier):
    p = G.Profile(kinds={"generic"}, generic_cmds=all_cmds(), arg_pool=POOL, group_depth=3, max_args=6,
                  max_items=8 if tier == "quick" else 14, depth=0, dangling=False, moddoc=False)
    return st.fixed_dictionaries({"module": G.module(p), "layout": G.layout_choices(40), "crlf": st.booleans(),
                                  "eof_newline": st.booleans(), "bom": st.sampled_from([False, False, False, True]),
                                  # doccomment-shaped bracket comments on one line, not followed by a command
                                  "oneline": st.sampled_from([0, 0, 1, 2]),
                                  # the last documented invocation occurs a second time, word for word
                                  "repeat_last": st.sampled_from([False, False, True]),
                                  "arity_case": st.sampled_from(["lower", "UPPER", "Title"]),
                                  "arity": G.weighted((3, st.just([])), (1, st.lists(st.tuples(st.sampled_from(["set", "option", "add_test", "ct_add_test", "ct_add_section",
                                                                               "cpp_class", "cpp_member", "cpp_attr", "cpp_constructor"]),
                                                              st.sampled_from([[], ["${args@}"], ['"${a@};${b}"'], ["${x@}", "${y}"]]),
                                                              st.sampled_from(["Uses {braces} and ${var}.", "Format {0} {} {name!r} %s %(k)s.",
                                                                               "Plain words.", "{", "}} {{", None])), min_size=1, max_size=2)))})


def _fix_at(x):
    if isinstance(x, list):
        return [_fix_at(y) for y in x]
    return x.replace(AT, "@") if isinstance(x, str) else x


def build(case):
    items = []
    for it in case["module"]["items"]:
        it = dict(it)
        it["args"] = _fix_at(it["args"])
        items.append(it)
    if case.get("repeat_last"):
        docd = [x for x in items if x.get("doc")]
        if docd:
            items.append(dict(docd[-1]))
    module = {"moddoc": None, "items": items}
    prelude = "".join(f"function({c})\nendfunction()\n" for c in all_cmds())
    body = R.render(module, case["layout"], eof_newline=True)
    # commands CMinx knows, invoked with argument lists that only expand at run time (arity unknown statically)
    for i, (cmd, args, doc) in enumerate(case.get("arity") or []):
        if doc is not None:
            body += "#[[[\n# " + doc + "\n#]]\n"
        spelled = {"UPPER": cmd.upper(), "Title": cmd.title()}.get(case.get("arity_case"), cmd)
        body += spelled + "(" + " ".join(a.replace("@", str(900 + i)) for a in args) + ")\n"
    for i in range(case.get("oneline") or 0):
        body += ["#[[[ one line, nothing follows #]]\n", "  #[[[ mentions @module but is no module doccomment #]]\n"][i % 2]
    if not case["eof_newline"] and body.endswith("\n"):
        body = body[:-1]
    text = prelude + body
    if case["crlf"]:
        text = text.replace("\r\n", "\n").replace("\n", "\r\n")
    return module, text, len(all_cmds()) * 2


def cmake_trace(path, workdir):
    tr = path + ".trace"
    p = subprocess.run([CMAKE, "--trace", "--trace-format=json-v1", f"--trace-redirect={tr}", "-P", path],
                       cwd=workdir, capture_output=True, text=True)
    calls = []
    if os.path.exists(tr):
        with open(tr, encoding="utf-8", errors="replace") as f:
            for line in f:
                line = line.strip()
                if not line.startswith("{"):
                    continue
                d = json.loads(line)
                if "cmd" in d and d.get("file") == path:
                    calls.append((d["cmd"], d.get("args", []), d.get("line")))
        os.remove(tr)
    return p.returncode, p.stderr, calls


def features(module):
    forms, feats = set(), set()

    def scan(args, depth):
        for a in args:
            if isinstance(a, list):
                feats.add("parens")
                if depth >= 1:
                    feats.add("nested-parens")
                scan(a, depth + 1)
                continue
            if a.startswith('"'):
                forms.add("quoted")
                if "\\\n" in a or "\\\r\n" in a:
                    feats.add("continuation")
            elif L.BRACKET_OPEN.match(a):
                forms.add("bracket")
                if a.startswith("[="):
                    feats.add("bracket-level>=1")
            else:
                forms.add("unquoted")
            if "\\" in a and not L.BRACKET_OPEN.match(a):
                feats.add("escape")
            if not a.isascii():
                feats.add("non-ascii")
    for it in module["items"]:
        scan(it["args"], 0)
    return forms, feats


def evaluate(case):
    res = Result()
    if "corpus_file" in case:
        _, fails, _ = _corpus_one(case["corpus_file"])
        for f in fails:
            res.fail(*f)
        return res
    if "deep_nesting" in case:
        _, fails = _deep_one(int(case["deep_nesting"]))
        r = Result(nontrivial=True)
        for f in fails:
            r.fail(*f)
        return r
    if "large_file" in case:
        _, fails = _large_one(tuple(case["large_file"]))
        for f in fails:
            res.fail(*f)
        return res
    if "splice" in case:
        text = "".join(a + b for a, b in zip(case["splice"], case["seps"]))
        want = []
        for src in case["splice"]:
            lx = L.lex(src, strict_escapes=False)
            want += [(c.name, [a.replace("\r\n", "\n") for a in c.flat()]) for c in lx.commands]
        try:
            got, err = parse_commands(text)
            got = [(nm, [a.replace("\r\n", "\n") for a in ar]) for nm, ar in got]
            if err.strip():
                res.fail("splice:lexer-skipped-characters", err.strip()[:160])
            if got != want:
                res.fail("splice:argument-boundaries", "spliced commands differ")
        except Exception as e:
            res.fail("splice:rejected:" + exc_key(e), repr(e)[:200])
        return res
    module, text, prelude_cmds = build(case)
    forms, feats = features(module)
    lay_feats = set()
    R.render(module, case["layout"], features=lay_feats)
    if lay_feats & {"comment-in-args", "comment-glued-to-arg"}:
        feats.add("comment-adjacent-to-argument")
    if case["crlf"]:
        feats.add("crlf")
    res.labels += ["form:" + f for f in sorted(forms)] + sorted(feats)
    res.nontrivial = len(forms) >= 3 and bool(feats & {"escape", "bracket-level>=1", "nested-parens", "non-ascii",
                                                       "comment-adjacent-to-argument"})
    if res.nontrivial:
        res.sample = {"source": short(text[text.rindex("endfunction()") + 14:], 700)}
    want = [(it["cmd"], M.flat_args(it["args"])) for it in module["items"]]
    # (a) CMinx's parse tree
    try:
        got, stderr = parse_commands(text)
    except Exception as e:
        res.fail("rejected:" + exc_key(e), repr(e)[:200])
        return res
    if stderr.strip():
        res.fail("lexer-skipped-characters", stderr.strip()[:200])
    n_extra = len(case.get("arity") or [])
    got_body = got[prelude_cmds:len(got) - n_extra] if n_extra else got[prelude_cmds:]
    extra_got = got[len(got) - n_extra:] if n_extra else []
    extra_want = [(cmd, [a.replace("@", str(900 + i)) for a in args]) for i, (cmd, args, doc) in enumerate(case.get("arity") or [])]
    if [(c.lower(), a) for c, a in extra_got] != extra_want:
        res.fail("argument-boundaries", f"run-time arity commands: expected {extra_want!r} got {extra_got!r}")
    # CRLF: arguments spanning lines carry \r\n in the source
    conv = (lambda s: s.replace("\r\n", "\n").replace("\n", "\r\n")) if case["crlf"] else (lambda s: s)
    want_src = [(c, [conv(a) for a in args]) for c, args in want]
    if [c.lower() for c, _ in got_body] != [c.lower() for c, _ in want_src]:
        res.fail("command-sequence", f"expected {[c for c, _ in want_src]} got {[c for c, _ in got_body]}")
    else:
        for k, ((c, wa), (_, ga)) in enumerate(zip(want_src, got_body)):
            if wa != ga:
                res.fail("argument-boundaries", f"command {k} {c}: expected {wa!r} got {ga!r}")
                break
    # (c) processed to completion; documented generic commands show the arguments in order
    bom = b"\xef\xbb\xbf" if case.get("bom") else b""
    if bom:
        res.labels.append("leading-bom")
    run = document_text(text, real_settings(), raw_bytes=bom + text.encode("utf-8"))
    if run.exc is not None:
        res.fail("process:" + exc_key(run.exc), repr(run.exc)[:300])
    else:
        if "token recognition error" in run.stderr:
            res.fail("lexer-skipped-characters", run.stderr.strip()[:200])
        # the aggregated objects show what Documenter itself (file decoding included) handed to the aggregator
        gen_docs = [d for d in (run.documented or []) if type(d).__name__ == "GenericCommandDocumentation"]
        docd_items = [it for it in module["items"] if it.get("doc")]
        if len(gen_docs) != len(docd_items):
            res.fail("documented-generic-objects", f"{len(docd_items)} documented invocations, {len(gen_docs)} aggregated objects")
        else:
            import re as _re
            for it, d in zip(docd_items, gen_docs):
                if any(isinstance(a, list) for a in it["args"]):
                    from vlib.compare import match_tokens
                    if not match_tokens(" ".join(d.params), [conv(a) for a in M.flat_args(it["args"])]):
                        res.fail("documented-generic-params", f"{it['cmd']}: expected {M.flat_args(it['args'])!r} got {d.params!r}")
                        break
                elif [conv(a) for a in it["args"]] != list(d.params):
                    res.fail("documented-generic-params", f"{it['cmd']}: expected {it['args']!r} got {d.params!r}")
                    break
        if not case["crlf"]:
            page = V.Page(run.text)
            docd = [it for it in module["items"] if it.get("doc")]
            multiline = any("\n" in a for it in docd for a in M.flat_args(it["args"]))
            ents = [n for n in page.entries() if any(a[0] == "warning" and "generic command" in (a[1] or "") for a in n.admonitions())]
            if multiline:
                res.labels.append("signature-check-skipped:multi-line-argument")
            elif len(ents) != len(docd):
                res.fail("documented-generic-count", f"{len(docd)} documented invocations, {len(ents)} entries")
            else:
                import re
                for it, n in zip(docd, ents):
                    toks = M.flat_args(it["args"])
                    inner = n.arg[len(it["cmd"]) + 1:-1] if n.arg.lower().startswith(it["cmd"].lower() + "(") else None
                    from vlib.compare import match_tokens
                    if inner is None or not match_tokens(inner, toks):
                        if "\n" in "".join(toks):
                            continue    # multi-line arguments break the one-line directive heading: not this property
                        res.fail("documented-generic-signature", f"{it['cmd']}: expected tokens {toks!r} got {n.arg!r}")
                        break
    # (b) CMake itself, for a deterministic sample
    if case.get("arity"):
        res.labels.append("runtime-arity-commands")
        res.labels.append("known-command-case:" + (case.get("arity_case") or "lower"))
    if case.get("oneline"):
        res.labels.append("one-line-dangling-doccomment")
    if int(digest(case)[:2], 16) % 4 == 0 and not case.get("arity"):
        res.labels.append("cmake-differential")
        d = os.path.join(scratch_dir(), "c05")
        os.makedirs(d, exist_ok=True)
        path = os.path.join(d, "case.cmake")
        with open(path, "wb") as f:
            f.write(bom + text.encode("utf-8"))
        code, err, calls = cmake_trace(path, d)
        body_calls = [(c, a) for c, a, ln in calls if c.lower() not in ("function", "endfunction")]
        norm_want = []
        for c, args in want_src:
            na = []
            for a in args:
                if a in ("(", ")"):
                    na.append(a)
                elif a.startswith('"'):
                    na.append(L.normalize("quoted", a))
                elif L.BRACKET_OPEN.match(a):
                    na.append(L.normalize("bracket", a))
                else:
                    na.append(a)
            # CMake reads sources in text mode: CRLF inside multi-line arguments arrives as LF
            norm_want.append((c, [x.replace("\r\n", "\n") for x in na]))
        if code != 0:
            res.labels.append("UNSOUND:cmake-rejects-generated-file")
            res.fail("HARNESS:cmake-rejects-generated-file", err[-300:])
        elif [(c.lower(), a) for c, a in body_calls] != [(c.lower(), a) for c, a in norm_want]:
            res.labels.append("UNSOUND:cmake-disagrees-with-generator")
            k = next((i for i, (x, y) in enumerate(zip(body_calls, norm_want)) if (x[0].lower(), x[1]) != (y[0].lower(), y[1])), None)
            res.fail("HARNESS:cmake-disagrees-with-generator",
                     f"first difference at call {k}: cmake {body_calls[k] if k is not None and k < len(body_calls) else None!r} "
                     f"generator {norm_want[k] if k is not None and k < len(norm_want) else None!r}")
        # (3) the reference lexer against CMake
        lx = L.lex(text)
        if lx.error is not None:
            res.fail("HARNESS:reference-lexer-rejects-valid-file", str(lx.error))
        else:
            ref = [(c.name.lower(), [x.replace("\r\n", "\n") for x in c.normalized()]) for c in lx.commands][prelude_cmds:]
            if code == 0 and ref != [(c.lower(), a) for c, a in body_calls]:
                res.fail("HARNESS:reference-lexer-disagrees-with-cmake", "reference lexer and cmake trace differ")
    return res


def describe(case):
    module, text, _ = build(case)
    return {"source": text[text.rindex("endfunction()") + 14:] if "endfunction()" in text else text}


# ------------------------------------------------------------------ campaign 2: the corpus shipped with CMake

def corpus_files():
    out = []
    for dp, dn, fn in os.walk(CORPUS):
        for f in sorted(fn):
            if f.endswith(".cmake") or f == "CMakeLists.txt":
                out.append(os.path.join(dp, f))
    return sorted(out)


def _corpus_one(path):
    import vlib
    vlib.use_repo_source()
    fails = []
    stats = {"commands": 0, "legacy-skipped": 0, "rejected-by-reference": 0, "files": 1}
    try:
        with open(path, "rb") as f:
            raw = f.read()
        text = raw.decode("utf-8")
    except UnicodeDecodeError:
        stats["not-utf8"] = 1
        return path, fails, stats
    lx = L.lex(text, strict_escapes=False)
    run = document_text("", real_settings(), raw_bytes=raw, name=f"corpus-{os.getpid()}.cmake")
    if lx.error is not None:
        stats["rejected-by-reference"] = 1
        return path, fails, stats
    if run.exc is not None:
        fails.append(("corpus:" + exc_key(run.exc), f"{path}: {run.exc!r}"[:300]))
        return path, fails, stats
    if "token recognition error" in run.stderr:
        fails.append(("corpus:lexer-skipped-characters", f"{path}: {run.stderr.strip()[:160]}"))
    try:
        got, _ = parse_commands(text)
    except Exception as e:
        fails.append(("corpus:parse:" + exc_key(e), f"{path}: {e!r}"[:300]))
        return path, fails, stats
    ref = lx.commands
    if any(c.legacy for c in ref):
        # legacy arguments shift CMinx's token boundaries inside that command only; compare the others by position
        if len(got) != len(ref):
            stats["legacy-skipped"] += len(ref)
            return path, fails, stats
    if len(got) != len(ref):
        fails.append(("corpus:command-count", f"{path}: reference lexer sees {len(ref)} commands, CMinx {len(got)}"))
        return path, fails, stats
    for (name, args), c in zip(got, ref):
        if c.legacy:
            stats["legacy-skipped"] += 1
            continue
        stats["commands"] += 1
        if name != c.name or args != c.flat():
            fails.append(("corpus:argument-boundaries", f"{path}:{c.line}: reference {c.name}{c.flat()!r} vs CMinx {name}{args!r}"[:400]))
            break
    return path, fails, stats


def _index_one(path):
    try:
        text = open(path, "rb").read().decode("utf-8")
    except Exception:
        return []
    lx = L.lex(text, strict_escapes=False)
    if lx.error is not None:
        return []
    out = []
    for c in lx.commands:
        if c.legacy or c.end - c.start > 1500:
            continue
        out.append((text[c.start:c.end], c.name, c.flat()))
    return out[:80]


def splice_campaign(ctx, files):
    """Hypothesis draws commands from different corpus files and splices them into one file: the same commands in a
    new context (neighbouring comments, brackets, indentation gone) must keep their argument boundaries."""
    import hypothesis
    from hypothesis import given, settings, HealthCheck, Phase
    with multiprocessing.Pool(16) as pool:
        index = [c for part in pool.map(_index_one, files[::3], chunksize=8) for c in part]
    if not index:
        return
    n = 300 if ctx.tier == "quick" else 3000
    seps = ["\n", "\n\n", " # trailing comment\n", "\n#[[ block ]]\n", "\n  ", "\r\n", "\n#[=[\nx(\n]=]\n", " #[[c]]\n"]
    strat = st.lists(st.tuples(st.integers(0, len(index) - 1), st.integers(0, len(seps) - 1)), min_size=1, max_size=12)
    count = {"n": 0}

    @hypothesis.seed(ctx.seed * 7919 + 5)
    @settings(max_examples=n, deadline=None, database=None, phases=[Phase.generate],
              suppress_health_check=list(HealthCheck))
    @given(strat)
    def run(picks):
        text = ""
        want = []
        for i, s_ in picks:
            src, name, args = index[i]
            text += src + seps[s_]
            want.append((name, [a.replace("\r\n", "\n") for a in args]))
        r = Result(nontrivial=len({i for i, _ in picks}) >= 3)
        r.labels.append("corpus-splice")
        try:
            got, err = parse_commands(text)
            got = [(nm, [a.replace("\r\n", "\n") for a in ar]) for nm, ar in got]
            if err.strip():
                r.fail("splice:lexer-skipped-characters", err.strip()[:160])
            if got != want:
                k = next((j for j, (a, b) in enumerate(zip(got, want)) if a != b), min(len(got), len(want)))
                r.fail("splice:argument-boundaries", f"command {k}: expected {want[k] if k < len(want) else None!r} "
                                                     f"got {got[k] if k < len(got) else None!r}"[:400])
        except Exception as e:
            r.fail("splice:rejected:" + exc_key(e), repr(e)[:200])
        if r.nontrivial and count["n"] < 2:
            r.sample = {"spliced": short(text, 300)}
            count["n"] += 1
        ctx.record({"splice": [index[i][0] for i, _ in picks], "seps": [seps[s_] for _, s_ in picks]}, r)
    run()
    ctx.note("corpus_commands_indexed", len(index))


def _large_one(variant):
    """Files larger than 64 KiB whose multi-byte characters straddle every possible block boundary phase."""
    import vlib
    vlib.use_repo_source()
    filler, off = variant
    # the multi-byte characters that straddle the block boundaries (8 KiB, 64 KiB, ...) sit inside a comment, inside the
    # doccomment and inside an argument: none of them may be lost or replaced
    big = "x" * off + filler * 30000
    text = ("function(cmd_a)\nendfunction()\n#" + "x" * off + filler * 3000 + f"\n#[[[\n# Large file doc {filler * 2000}.\n#]]\n"
            f'cmd_a(a{off} "{big} b" [[c]] ({filler}))\n')
    run = document_text(text, real_settings(), name=f"large-{os.getpid()}.cmake")
    fails = []
    if run.exc is not None:
        fails.append(("large-file:" + exc_key(run.exc), f"{len(text.encode('utf-8'))} bytes, filler {filler!r} offset {off}: {run.exc!r}"[:300]))
    else:
        docs = [d for d in (run.documented or []) if type(d).__name__ == "GenericCommandDocumentation"]
        want = [f"a{off}", f'"{big} b"', "[[c]]", f"({filler})"]
        if len(docs) != 1 or list(docs[0].params) != want:
            got = [list(d.params) for d in docs]
            fails.append(("large-file:arguments", f"arguments differ (lengths expected {[len(w) for w in want]} got "
                                                  f"{[[len(x) for x in g] for g in got]})"[:300]))
        elif f"Large file doc {filler * 2000}." not in (run.text or ""):
            fails.append(("large-file:doc-text", "the doccomment line with 2000 multi-byte characters did not reach the output unchanged"))
    return variant, fails


def large_file_campaign(ctx):
    variants = [("é", 0), ("é", 1), ("漢", 0), ("漢", 1), ("漢", 2), ("𝔘", 0), ("𝔘", 1), ("𝔘", 3)]
    with multiprocessing.Pool(8) as pool:
        for variant, fails in pool.map(_large_one, variants):
            r = Result(nontrivial=True)
            r.labels.append("large-file>64KiB")
            for f in fails:
                r.fail(*f)
            ctx.record({"large_file": list(variant)}, r)


def _deep_one(depth):
    """A documented generic command with a parenthesised group nested `depth` levels deep (CMake parses it), documented by a
    fresh interpreter so that the depth of the harness' own stack plays no role."""
    import sys
    import shutil
    from vlib import SRC
    d = os.path.join(scratch_dir(), f"c05-deep-{os.getpid()}-{depth}")
    shutil.rmtree(d, ignore_errors=True)
    os.makedirs(os.path.join(d, "cfg"))
    src = "#[[[\n# Deeply nested condition DEEPDOC.\n#]]\nmy_custom_cmd(FIRST " + "(" * depth + "A AND B" + ")" * depth + " LAST)\n"
    with open(os.path.join(d, "deep.cmake"), "w") as f:
        f.write(src)
    code = f"import sys; sys.path.insert(0, {SRC!r}); import warnings; warnings.simplefilter('ignore'); import cminx; cminx.main(sys.argv[1:])"
    p = subprocess.run([sys.executable, "-c", code, os.path.join(d, "deep.cmake"), "-o", os.path.join(d, "out")], cwd=d,
                       env=dict(os.environ, CMINXDIR=os.path.join(d, "cfg"), HOME=os.path.join(d, "cfg")), capture_output=True, text=True)
    fails = []
    page = os.path.join(d, "out", "deep.rst")
    if p.returncode != 0 or not os.path.exists(page):
        fails.append(("valid-input-rejected:deep-nesting", f"depth {depth}: exit {p.returncode}, page written={os.path.exists(page)}: {p.stderr[-200:]}"))
    else:
        text = open(page, encoding="utf-8").read()
        sig = [l for l in text.split("\n") if l.startswith(".. function:: my_custom_cmd(")]
        if len(sig) != 1 or not sig[0].startswith(".. function:: my_custom_cmd(FIRST ") or not sig[0].endswith(" LAST)") \
                or "(" * depth not in sig[0] or "DEEPDOC" not in text:
            fails.append(("documented-generic-deep-nesting", f"depth {depth}: entry {[x[:60] + '...' + x[-30:] for x in sig]}"))
    shutil.rmtree(d, ignore_errors=True)
    return depth, fails


def deep_nesting_campaign(ctx):
    with multiprocessing.Pool(3) as pool:
        for depth, fails in pool.map(_deep_one, [150, 350, 600]):
            r = Result(nontrivial=True)
            r.labels.append("nesting-depth>=150")
            for f in fails:
                r.fail(*f)
            ctx.record({"deep_nesting": depth}, r)


def extra(ctx):
    large_file_campaign(ctx)
    deep_nesting_campaign(ctx)
    files = corpus_files()
    if not files:
        ctx.note("corpus_files", 0)
        return
    splice_campaign(ctx, files)
    with multiprocessing.Pool(16) as pool:
        results = pool.map(_corpus_one, files, chunksize=8)
    tot = {}
    for path, fails, stats in results:
        for k, v in stats.items():
            tot[k] = tot.get(k, 0) + v
        r = Result(nontrivial=True)
        for f in fails:
            r.fail(*f)
        r.labels.append("corpus-file")
        ctx.record({"corpus_file": path}, r)
    ctx.note("corpus", tot)
