"""C09 Class entries reflect the cpp_class structure of the source."""
import copy
import re

from hypothesis import strategies as st

from vlib import gen_cmake as G, render as R, model as M, rstview as V, compare as C
from vlib.cminx_run import document_text, real_settings
from vlib.harness import Result
from .common import exc_key, short

ID = "C09"
LEVEL = "exploration"
RULE = ("class forests: sibling classes, nesting to depth 3 (thorough 5), any order of cpp_attr (0..2 extra arguments), "
        "cpp_member and cpp_constructor with 0..4 types (incl. variadic 'args'), implementing function/macro with 0..5 "
        "parameters (more or fewer than types) whose bodies hold further commands (set, generic, nested definitions, "
        "cmake_parse_arguments), documented or not, other commands between and after classes, drawn member strip "
        "pattern; oracle = reference model vs line view: members under the innermost class only and in source order, "
        "inner classes as own entries and by name in the outer list, method params (after name/self, stripped), "
        ":type pairs position-wise, macro note iff macro, :value: iff default given, bases as written. Non-trivial: "
        ">=2 classes with one nested and a member or sibling class after the nested class ends, >=3 members in total; "
        "distinct by SHA-1 of the case")
RULE_MORE = 'large modules as in C01. Later: docs holding note/warning directives of their own; strip patterns that can cross separators; bases named twice.'
ASSUMPTIONS = ["include_undocumented_* at defaults", "declarations are directly followed by their undocumented implementing "
               "definition", "'[, ...]' rendering of variadic members is not constrained"]
BUDGET = {"quick": {"shards": 8, "examples": 200}, "thorough": {"shards": 16, "examples": 3000}}

PATTERNS = ["", "", "_", "[aeiou]", "^[^_]*_", "[^a-z]+", "\\W+", "(?s)_.*", "^_", "_$", "^[a-z]{1,3}_", "[0-9]+", "(?i)^arg_", "^v", "_name$"]


def _doc():
    line = st.one_of(G.benign_line(), G.benign_line(), st.just(""),
                     st.sampled_from([":param <<P0>>: Described by hand.", ":type <<P0>>: custom", ":param other: Text.",
                                      ":type <<P1>>: longer", ":param <<P1>>: The longer one.", "Closing words after the fields."]))
    return st.fixed_dictionaries({"lines": st.lists(line, max_size=4), "form": st.sampled_from(["leader", "leader", "bare"]),
                                  "mpos": st.integers(0, 8)})


def strategy(tier, repeat=None):
    p = G.Profile(doc=_doc(), kinds={"class", "attr", "member", "func", "set", "generic", "parseargs", "block"},
                  max_items=5 if tier == "quick" else 7, depth=3 if tier == "quick" else 5, dangling=False, groups=False, impl_doc=True, dups=2,
                  moddoc=False, body_max=3, tests=False,
                  weights={"class": 5, "member": 2, "attr": 2, "func": 1})
    if repeat is not None:
        p.p_doc_mostly = True
    return st.fixed_dictionaries({"module": G.module(p, repeat), "layout": G.layout_choices(24),
                                  "settings": st.fixed_dictionaries({"strip": st.fixed_dictionaries({
                                      "member": st.sampled_from(PATTERNS), "function": st.sampled_from(["", "^zz"]),
                                      "macro": st.just("")})}),
                                  "prefix_params": st.booleans()})


def prepare(case):
    mod = copy.deepcopy(case["module"])
    pat = case["settings"]["strip"]["member"]
    for it, _, _ in G.walk(mod["items"]):
        if it["k"] == "member" and case.get("prefix_params") and len(it["impl"]["params"]) >= 2:
            # one parameter name is a proper prefix of the next one (dest / dest_dir)
            it["impl"]["params"][1] = it["impl"]["params"][0] + "_ext"
        d = it.get("doc")
        if not d:
            continue
        p0 = p1 = "none"
        if it["k"] == "member" and it["impl"]["params"]:
            p0 = re.sub(pat, "", it["impl"]["params"][0])
            if len(it["impl"]["params"]) >= 2:
                p1 = re.sub(pat, "", it["impl"]["params"][1])
        d["lines"] = [l.replace("<<P0>>", p0).replace("<<P1>>", p1) for l in d["lines"]]
        num = int("".join(ch for ch in (d.get("marker") or "0") if ch.isdigit()) or 0)
        if num % 4 == 0 and d.get("marker"):
            # the doc text itself holds a note / warning directive (not one of the generated admonitions)
            d["lines"] = d["lines"] + ["", [".. note::", ".. warning::"][num % 8 == 0], "", "   Remember the units here."]
        if d.get("form") == "bare" and not all(l == "" or l[0].isalpha() for l in d["lines"]):
            d["form"] = "leader"
    return mod


def _shape(items, depth, stats):
    """Class-structure statistics."""
    seen_nested_end = False
    for it in items:
        if it["k"] == "class":
            stats["classes"] += 1
            stats["maxdepth"] = max(stats["maxdepth"], depth + 1)
            if depth >= 1:
                stats["nested"] += 1
            if seen_nested_end:
                stats["after_nested"] += 1
            inner_before = stats["nested"]
            _shape(it["body"], depth + 1, stats)
            if depth >= 0 and stats["nested"] > inner_before or depth >= 1:
                seen_nested_end = True
        elif it["k"] in ("member", "attr"):
            stats["members"] += 1
            if seen_nested_end:
                stats["after_nested"] += 1
            if it["k"] == "member":
                n_t, n_p = len(it["types"]), len(it["impl"]["params"])
                stats["types<params" if n_t < n_p else "types>params" if n_t > n_p else "types=params"] += 1
        elif it["k"] == "block":
            _shape(it["body"], depth, stats)


def extra(ctx):
    """A few modules of hundreds of items: the drawn item list is tiled 25..45 times, every copy with names of its own."""
    from .common import large_campaign
    large_campaign(ctx, strategy("quick", repeat=st.integers(25, 45)), evaluate, 4 if ctx.tier == "quick" else 32)


def evaluate(case):
    res = Result()
    module = prepare(case)
    ms = M.MSettings.from_json(case["settings"])
    src = R.render(module, case["layout"])
    stats = {"classes": 0, "nested": 0, "members": 0, "after_nested": 0, "maxdepth": 0,
             "types<params": 0, "types>params": 0, "types=params": 0}
    _shape(module["items"], 0, stats)
    for k in ("nested", "after_nested", "types<params", "types>params"):
        if stats[k]:
            res.labels.append(k)
    res.labels.append(f"class-depth:{stats['maxdepth']}")
    if ms.strip["member"]:
        res.labels.append("member-strip-pattern")
    res.nontrivial = stats["classes"] >= 2 and stats["nested"] >= 1 and stats["after_nested"] >= 1 and stats["members"] >= 3
    if res.nontrivial:
        res.sample = {"settings": case["settings"], "source": short(src, 800)}
    run = document_text(src, real_settings(ms))
    if run.exc is not None:
        res.fail(exc_key(run.exc), repr(run.exc)[:300])
        return res
    page = V.Page(run.text)
    exp = M.expected(module, ms)
    for key, detail in C.compare_entries(exp, page):
        kind = key.split(":")[1] if ":" in key else ""
        if key.split(":")[0] in ("class-name", "class-members", "class-attrs", "class-bases", "class-inner", "class-labels",
                                 "class-grouping", "class-foreign-child", "member-dir", "method-name", "method-params",
                                 "method-type-pair", "method-type-extra", "attr-name", "attr-value", "attr-value-unexpected",
                                 "adm-count", "adm-kind", "adm-text", "doc", "missing", "extra", "mismatch", "dir",
                                 "nested-entry"):
            res.fail(key, detail)
    return res


def describe(case):
    return {"settings": case["settings"], "source": R.render(prepare(case), case["layout"])}
