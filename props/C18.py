"""C18 Pages go only where requested: the output directory, or stdout."""
import os
import subprocess
import sys

import yaml
from hypothesis import strategies as st

from vlib import SRC, gen_tree as T, sandbox as S, model as M
from vlib.harness import Result, digest
from .common import exc_key

ID = "C18"
LEVEL = "exploration"
RULE = ("trees and lone files x output directory {absolute fresh, relative to the cwd, nested in the input tree (fresh, or "
        "pre-existing and pruned by auto-exclusion), parent of the input tree, pre-populated with unrelated files and "
        "directories} x with and without -o x settings that change page content (prefix, extension options, the ten "
        "include flags, header characters) x recursive on/off; inputs trigger no diagnostics; oracle: snapshot (path, "
        "size, sha256) of the whole sandbox before/after: with -o every created or modified path lies inside the output "
        "directory (or is a missing ancestor of it), nothing is deleted, pre-existing unrelated files are byte-identical; "
        "without -o the snapshot is unchanged and stdout decomposes completely into the pages of the -o run (index pages "
        "excluded), each exactly once and followed by one empty line, pages of one directory in sorted name order, nothing "
        "else; a sample is re-run as a real subprocess for true stdout. Non-trivial: output directory pre-populated or "
        "nested/parent, and a tree with >=2 directories; distinct by SHA-1 of the case")
RULE_MORE = 'snapshots include modification times; the same command line run twice into one output directory; a symbolic link in the tree to a CMake file outside it. Later: auto-exclusion off; unrelated files extending generated names; a page > 64 KiB; output path with decomposed characters; (round 10) an unrelated regular file named like an input subdirectory; the API called three times for stdout; (round 11) permission bits of pre-existing files in the snapshots (some are 0444 / 0600); `output.relative_to_config: true` in the settings file.'
ASSUMPTIONS = ["the in-process runner captures sys.stdout/sys.stderr including logging handlers bound at configuration time",
               "creating missing ancestors of the output directory is part of creating the output directory"]
BUDGET = {"quick": {"shards": 8, "examples": 80}, "thorough": {"shards": 16, "examples": 1200}}

HEADER_POOL = list("#*=-_~!&@^+")


def strategy(tier):
    depth = 2 if tier == "quick" else 3
    return st.fixed_dictionaries({
        "tree": T.dir_tree(depth, max_files=3, max_dirs=2, mixed_case=True, force_cmake_top=True),
        "lone": st.sampled_from([False, False, False, True]),
        "outloc": st.sampled_from(["abs", "rel", "nested-fresh", "nested-existing", "parent", "abs"]),
        "prepopulate": st.booleans(),
        "recursive": st.sampled_from([True, True, False]),
        "prefix": st.sampled_from([None, "pfx"]),
        "ext": st.booleans(),
        "flags_off": st.lists(st.sampled_from(M.FLAG_KINDS), max_size=3, unique=True),
        "headers": st.one_of(st.none(), st.lists(st.sampled_from(HEADER_POOL), min_size=2, max_size=5, unique=True)),
        "diagnostics": st.sampled_from([True, False, False, False]),
        # the same command line already ran once into the same output directory
        "rerun": st.sampled_from([False, False, True]),
        "blocker": st.sampled_from([False, True]),
        "rtc": st.sampled_from([False, True, False]),
        "api_repeat": st.sampled_from([False, False, True]),
        # a symbolic link in the tree to a CMake file that lives elsewhere
        "filelink": st.sampled_from([None, None, "top", "sub"]),
        # auto-exclusion of directories without CMake files off (never together with an output directory inside the tree)
        "auto_off": st.sampled_from([False, False, True]),
        # one page far larger than a pipe buffer, holding a single line of more than 64 KiB
        "huge": st.sampled_from([False, False, False, True]),
    })


def split_stdout(stdout, pages):
    """Decompose stdout into pages each followed by one empty line. -> (order list of keys) or (None, reason)."""
    remaining = dict(pages)
    pos = 0
    order = []
    while pos < len(stdout):
        cands = [k for k, t in remaining.items() if stdout.startswith(t, pos)]
        if not cands:
            return None, f"unexpected text at offset {pos}: {stdout[pos:pos + 80]!r}"
        # longest match first (a page could be a prefix of another)
        cands.sort(key=lambda k: -len(remaining[k]))
        k = cands[0]
        pos += len(remaining.pop(k))
        if stdout.startswith("\n\n", pos):
            pos += 2
        elif stdout.startswith("\n", pos):
            pos += 1
        else:
            return None, f"page {k} is not followed by an empty line"
        order.append(k)
    if remaining:
        return None, f"pages missing from stdout: {sorted(remaining)}"
    return order, None


def evaluate(case):
    res = Result()
    tree = T.fill(T.ensure_lowercase_cmake(case["tree"]))
    lone = case["lone"]
    top_files = sorted(n for n in tree["files"] if n.endswith(".cmake"))
    with S.Sandbox("c18") as sb:
        loc = sb.path("loc")
        inp = os.path.join(loc, "in")
        S.materialize(tree, inp)
        if case.get("diagnostics") and not lone:
            # a file that makes CMinx log warnings/errors (dangling doccomment, declaration with too few arguments):
            # the "nothing but the pages on stdout" clause is conditional on no diagnostics, the file-system clauses are not
            with open(os.path.join(inp, "zz_diag.cmake"), "w") as f:
                f.write("ct_add_test(NAME)\ncpp_class()\nfunction(ok_diag)\nendfunction()\n#[[[\n# dangling at EOF\n#]]\n")
        if case.get("huge") and not lone:
            with open(os.path.join(inp, "zz_huge.cmake"), "w") as f:
                f.write("#[[[\n# " + "very long line " * 4700 + "\n# Second line.\n#]]\nfunction(huge_fn a)\nendfunction()\n"
                        + "".join(f"#[[[\n# Filler {i}.\n#]]\nset(FILL_{i} {i})\n" for i in range(40)))
            res.labels.append("page-larger-than-64KiB")
        link_dir = None
        if case.get("filelink") and not lone:
            os.makedirs(sb.path("else", "shared"))
            with open(sb.path("else", "shared", "shared.cmake"), "w") as f:
                f.write("#[[[\n# Lives outside the tree.\n#]]\nfunction(shared_fn a)\nendfunction()\n")
            where = inp
            if case["filelink"] == "sub" and tree["dirs"]:
                where = os.path.join(inp, sorted(tree["dirs"])[0])
            os.symlink(sb.path("else", "shared", "shared.cmake"), os.path.join(where, "zz_link.cmake"))
            link_dir = os.path.relpath(where, inp)
            link_dir = "" if link_dir == "." else link_dir
            res.labels.append("symlinked-file:" + case["filelink"])
        cwd = sb.path("cwd")
        outloc = case["outloc"]
        if lone and outloc.startswith("nested"):
            outloc = "abs"
        if outloc == "abs":
            # decomposed characters in the requested output path (it must be used as spelled)
            out_arg = out_abs = sb.path("out") if len(top_files) % 2 else sb.path("re\u0301fe\u0301rence", "out")
        elif outloc == "rel":
            out_arg, out_abs = "rel/o ut", os.path.join(cwd, "rel/o ut")
        elif outloc == "nested-fresh":
            out_arg = out_abs = os.path.join(inp, "_out")
        elif outloc == "nested-existing":
            out_arg = out_abs = os.path.join(inp, "docs_out")
            os.makedirs(out_abs)
        else:
            out_arg = out_abs = loc
        prepop = {}
        blocker = None
        if case.get("blocker") and case["recursive"] and not lone and tree["dirs"] and not case.get("rerun") \
                and not outloc.startswith("nested") and outloc != "parent":
            blocker = sorted(tree["dirs"])[-1]
        if case["prepopulate"] or outloc == "nested-existing":
            prepop = {"KEEP_1.txt": b"keep me\n", "zz_keep/old.rst": b"old page\n", "notes.md": b"# notes\n",
                      "overview.rst": b"Hand written\n============\n", ".hidden.rst": b"x\n", "conf.py": b"project = 'x'\n"}
            # foreign files also inside directories the run mirrors from the input tree
            for dname in sorted(tree["dirs"])[:2]:
                prepop[f"{dname}/design.rst"] = b"Design notes\n"
                prepop[f"{dname}/_static/logo.txt"] = b"logo\n"
                prepop[f"{dname}/index.rst.tmp"] = b"someone's scratch file\n"
            # unrelated files whose names merely extend the names of generated files
            for stem in ["index"] + [T.stem_of(n) for n in top_files[:2] if len(n) < 200]:
                for suffix in (".rst.tmp", ".rst~", ".rst.bak", ".rst.new", ".tmp"):
                    prepop[stem + suffix] = b"not generated by cminx\n"
                prepop["." + stem + ".rst.swp"] = b"swap\n"
        if blocker:
            # the user's own regular file sits where the run would like to create a mirrored directory
            prepop = {k: v for k, v in prepop.items() if not k.startswith(blocker + "/")}
            prepop[blocker] = b"my notes, not a directory\n"
            res.labels.append("unrelated-file-named-like-an-input-subdirectory")
        for rel, data in prepop.items():
            p = os.path.join(out_abs, rel)
            os.makedirs(os.path.dirname(p), exist_ok=True)
            with open(p, "wb") as f:
                f.write(data)
            if rel.endswith(".rst") and len(rel) % 2 == 0:
                os.chmod(p, 0o444 if len(rel) % 4 == 0 else 0o600)      # the user's own permission bits are part of "untouched"
        cfg = sb.path("settings.yaml")
        settings = {"input": {f"include_undocumented_{k}": False for k in case["flags_off"]},
                    "rst": {"file_extensions_in_titles": case["ext"]}}
        if case.get("rtc"):
            # only says how a *configured* directory is resolved; without a directory there is still no directory
            settings["output"] = {"relative_to_config": True}
            res.labels.append("relative_to_config-without-configured-directory")
        auto_off = bool(case.get("auto_off")) and not outloc.startswith("nested") and outloc != "parent"
        settings["input"]["auto_exclude_directories_without_cmake"] = not auto_off
        if auto_off:
            res.labels.append("auto-exclusion-off")
        if case["headers"]:
            settings["rst"]["headers"] = case["headers"]
        with open(cfg, "w") as f:
            yaml.safe_dump(settings, f)
        target = os.path.join(inp, top_files[0]) if lone else inp
        common = [target, "-s", cfg]
        if case["recursive"] and not lone:
            common.append("-r")
        if case["prefix"]:
            common += ["-p", case["prefix"]]
        snap0 = S.snapshot(sb.root, times=True)
        if case.get("rerun"):
            res.labels.append("second-run-into-the-same-output")
            first = S.run_main(common + ["-o", out_arg], cwd=cwd)
            if first.exc is not None or first.code != 0:
                res.fail("with-o:" + (exc_key(first.exc) if first.exc else f"exit-{first.code}"), (repr(first.exc) + first.stderr)[-300:])
                return res
        before = S.snapshot(sb.root, times=True)
        run = S.run_main(common + ["-o", out_arg], cwd=cwd)
        if blocker and (run.exc is not None or run.code != 0):
            # refusing loudly is fine; replacing or changing the user's file is not
            for rel, data in prepop.items():
                p = os.path.join(out_abs, rel)
                if not os.path.isfile(p) or os.path.islink(p) or open(p, "rb").read() != data:
                    res.fail("unrelated-file-touched", f"pre-existing {rel} in the output directory was changed or removed")
            res.labels.append("blocked-run-refused")
            res.nontrivial = True
            return res
        if run.exc is not None or run.code != 0:
            res.fail("with-o:" + (exc_key(run.exc) if run.exc else f"exit-{run.code}"), (repr(run.exc) + run.stderr)[-300:])
            return res
        after = S.snapshot(sb.root, times=True)
        out_rel = os.path.relpath(out_abs, sb.root)
        for p in sorted(set(before) - set(after)):
            res.fail("deleted", f"{p} was deleted by the run")
        written = {}
        for p, v in sorted(after.items()):
            if p in before and before[p] == v:
                continue
            inside = p == out_rel or p.startswith(out_rel + "/")
            ancestor = out_rel.startswith(p + "/") and v[0] == "dir"
            if p in before:
                where = "inside-output" if inside else "outside-output"
                pre = inside and os.path.relpath(os.path.join(sb.root, p), out_abs) in prepop
                if not inside or pre:
                    res.fail(f"modified:{'unrelated-file-in-output' if pre else where}", f"{p} was modified")
            elif not inside and not ancestor:
                zone = p.split("/")[0]
                res.fail(f"created-outside-output:{zone}", f"{p} created outside the output directory {out_rel}")
        for p, v in sorted(after.items()):
            # files of the output directory that this command line produced (in the run under test or the identical one before)
            inside = p == out_rel or p.startswith(out_rel + "/")
            if inside and v[0] == "file" and snap0.get(p) != v:
                written[os.path.relpath(os.path.join(sb.root, p), out_abs)] = None
        for rel, data in prepop.items():
            p = os.path.join(out_abs, rel)
            if not os.path.isfile(p) or open(p, "rb").read() != data:
                res.fail("unrelated-file-touched", f"pre-existing {rel} in the output directory was changed or removed")
        pages = {}
        for rel in written:
            if os.path.basename(rel) == "index.rst":
                continue
            with open(os.path.join(out_abs, rel), encoding="utf-8") as f:
                pages[rel] = f.read()
        # without -o
        mid = S.snapshot(sb.root, times=True)
        run2 = S.run_main(common, cwd=cwd)
        if run2.exc is not None or run2.code != 0:
            res.fail("stdout-mode:" + (exc_key(run2.exc) if run2.exc else f"exit-{run2.code}"), (repr(run2.exc) + run2.stderr)[-300:])
            return res
        end = S.snapshot(sb.root, times=True)
        if end != mid:
            diff = sorted(set(end.items()) ^ set(mid.items()))[:3]
            res.fail("stdout-mode-touches-files", f"snapshot changed without -o: {diff}")
        # the nested output directory now exists inside the input tree: it is pruned (no .cmake inside) so pages are unchanged
        order, why = split_stdout(run2.stdout, pages)
        if case.get("diagnostics") and not lone:
            res.labels.append("diagnostics-triggered")
            order, why = [], None       # stdout may carry the diagnostics: not constrained
        if order is None:
            kind = "log-line" if (" - INFO - " in run2.stdout or " - DEBUG - " in run2.stdout or "cminx" in why) else "content"
            res.fail(f"stdout-not-pages:{kind}", why)
        else:
            by_dir = {}
            for k in order:
                by_dir.setdefault(os.path.dirname(k), []).append(os.path.basename(k))
            for d, names in by_dir.items():
                try:
                    S.subtree(tree, d)
                except KeyError:
                    res.fail("page-in-a-directory-the-input-does-not-have", f"pages {names} under {d!r}")
                    continue
                # sorted by source file name; page names are stems, compare via the source names
                src_names = sorted([n for n in (S.subtree(tree, d)["files"] if not lone else {top_files[0]: 1}) if T.is_cmake(n)] +
                                   (["zz_huge.cmake"] if case.get("huge") and not lone and d == "" else []) +
                                   (["zz_link.cmake"] if link_dir is not None and d == link_dir else []))
                want = [T.stem_of(n) + ".rst" for n in src_names if T.stem_of(n) + ".rst" in names]
                if names != want:
                    res.fail("stdout-order-within-directory", f"directory {d!r}: printed {names}, sorted order is {want}")
        if run2.stderr.strip() and not (case.get("diagnostics") and not lone):
            res.fail("stdout-mode-stderr-noise", run2.stderr[:200])
        if case.get("api_repeat") and not (case.get("diagnostics") and not lone) and not res.failures:
            # the public API called again and again in one process: every call prints the same pages
            import cminx
            import io as _io
            import contextlib as _cl
            res.labels.append("api-called-repeatedly-for-stdout")
            captured = []
            orig = cminx.document
            cminx.document = lambda f_, s_: captured.append((f_, s_))
            try:
                S.run_main(common, cwd=cwd)
            finally:
                cminx.document = orig
            outs = []
            for _k in range(3):
                buf = _io.StringIO()
                old_cwd = os.getcwd()
                os.chdir(cwd)
                try:
                    with _cl.redirect_stdout(buf), _cl.redirect_stderr(_io.StringIO()):
                        for f_, s_ in captured:
                            cminx.document(f_, s_)
                finally:
                    os.chdir(old_cwd)
                outs.append(buf.getvalue())
            if not (outs[0] == outs[1] == outs[2] == run2.stdout):
                res.fail("stdout-mode:repeated-api-call-differs", f"lengths of the printed text: main {len(run2.stdout)}, API calls {[len(o) for o in outs]}")
        # real subprocess for a sample
        if int(digest(case)[:2], 16) % 8 == 0:
            res.labels.append("subprocess-stdout")
            env = dict(os.environ, CMINXDIR=sb.path("cfg"), HOME=sb.path("cfg"), XDG_CONFIG_HOME=sb.path("cfg"))
            code = f"import sys; sys.path.insert(0, {SRC!r}); import warnings; warnings.simplefilter('ignore'); " \
                   f"import cminx; cminx.main(sys.argv[1:])"
            p = subprocess.run([sys.executable, "-c", code] + common, cwd=cwd, env=env, capture_output=True)
            if p.returncode != 0:
                res.fail("subprocess-exit", f"exit {p.returncode}: {p.stderr[-200:]!r}")
            else:
                o2, why2 = split_stdout(p.stdout.decode("utf-8"), pages)
                if o2 is None and not (case.get("diagnostics") and not lone):
                    res.fail("subprocess-stdout-not-pages", why2)
                if S.snapshot(sb.root, times=True) != end:
                    res.fail("subprocess-stdout-mode-touches-files", "snapshot changed")
        ndirs = 1 + len(S.tree_dirs(tree))
        res.labels += ["out:" + outloc, "prepopulated" if prepop else "fresh-output", "input:" + ("file" if lone else "dir")]
        res.nontrivial = (bool(prepop) or outloc in ("nested-fresh", "nested-existing", "parent")) and ndirs >= 2
        if res.nontrivial:
            res.sample = {"files": [p for p, _ in S.tree_files(tree)], "outloc": outloc, "prepopulated": sorted(prepop),
                          "written": sorted(written), "stdout_pages": order}
    return res


def describe(case):
    tree = T.fill(T.ensure_lowercase_cmake(case["tree"]))
    return {"files": [p for p, _ in S.tree_files(tree)], "options": {k: v for k, v in case.items() if k != "tree"}}
