"""C15 Exclusion patterns are honoured for every matching path."""
import os

from hypothesis import strategies as st

from vlib import gen_tree as T, sandbox as S
from vlib.harness import Result, HarnessError
from .common import exc_key

ID = "C15"
LEVEL = "exploration"
RULE = ("directory trees (as C13) x 0..5 exclude patterns built from the tree's own names (bare file/dir names, 'name/', "
        "globs '*.cmake' 'pre*' '?x' 'd?', '**/name', '**/dir/name', absolute paths of files and directories with/without "
        "trailing slash, the input path itself), delivered through -e, the -s file, the user configuration or split across "
        "them x directory-listing permutations; auto-exclusion off; oracle: own gitignore matcher for the generated forms "
        "(cross-checked against pathspec on every (pattern, path) pair - disagreement is a harness error): a file has a "
        "page iff neither it nor a directory between the input path and it matches, an excluded directory has no output "
        "content, an excluded input produces no output. Non-trivial: >=2 matching sibling entries in one directory, or a "
        "pattern set matching every CMake file of a directory; distinct by SHA-1 of the case")
RULE_MORE = 'input path through a symlinked parent directory (patterns use the spelling given); another input documented first in the same invocation. Later: output = parent of the input; names with commas and regex metacharacters; Settings object reused through the API; (round 10) a followed symbolic link to a subdirectory that a pattern names.'
ASSUMPTIONS = ["patterns are matched against absolute paths (as the help text of -e and the docs state); sandbox ancestors "
               "use names no generated pattern matches", "auto-exclusion off, recursive on unless drawn otherwise"]
BUDGET = {"quick": {"shards": 8, "examples": 200}, "thorough": {"shards": 16, "examples": 2500}}

PATTERN_KINDS = ["file", "dir", "dir/", "glob", "**/name", "**/dir/name", "absfile", "absdir", "absdir/", "input", "**/dir/",
                 "allcmake", "absglob-file", "absglob-dir", "absglob-input"]


def strategy(tier):
    depth = 3 if tier == "quick" else 4
    pat = st.tuples(st.sampled_from(PATTERN_KINDS), st.integers(0, 30), st.sampled_from(["e", "s", "u"]))
    return st.fixed_dictionaries({
        "tree": T.dir_tree(depth, max_files=5, max_dirs=3, mixed_case=True),
        "patterns": st.lists(pat, min_size=0, max_size=5),
        "recursive": st.sampled_from([True, True, True, False]),
        "order": st.one_of(st.none(), st.lists(st.integers(0, 11), min_size=1, max_size=8)),
        "cwd": st.sampled_from(["elsewhere", "elsewhere", "input", "subdir"]),
        # entries sharing one base name: a directory and a file called gen.cmake in different places, dup.cmake at two depths
        "samename": st.sampled_from([None, None, "e", "s", "u"]),
        # the input path passes through a symbolic link (patterns use the spelling given on the command line), and/or
        # another input is documented first in the same invocation
        "via_link": st.sampled_from([False, False, True]),
        "alias": st.sampled_from([0, 0, 0, 1, 2, 3, 4, 5]),
        "other_first": st.sampled_from([False, False, True]),
        # the output directory is the parent of the input directory
        "out_parent": st.sampled_from([False, False, False, True]),
        # the Settings object main() builds is used for an earlier cminx.document() call with other patterns first
        "api_reuse": st.sampled_from([False, False, False, True]),
    })


GLOBS = ["*.cmake", "pre*", "?x", "d?", "*x.cmake", "pre_*.cmake", "a*", "*.txt", "x-*"]


def build_patterns(case, tree, inp):
    files = [p for p, _ in S.tree_files(tree)]
    dirs = S.tree_dirs(tree)
    out = []
    for kind, i, src in case["patterns"]:
        p = None
        if kind == "file" and files:
            p = os.path.basename(files[i % len(files)])
        elif kind == "dir" and dirs:
            p = os.path.basename(dirs[i % len(dirs)])
        elif kind == "dir/" and dirs:
            p = os.path.basename(dirs[i % len(dirs)]) + "/"
        elif kind == "glob":
            p = GLOBS[i % len(GLOBS)]
        elif kind == "**/name" and (files or dirs):
            pool = files + dirs
            p = "**/" + os.path.basename(pool[i % len(pool)])
        elif kind == "**/dir/name":
            pool = [f for f in files + dirs if "/" in f]
            if pool:
                parts = pool[i % len(pool)].split("/")
                p = "**/" + "/".join(parts[-2:])
        elif kind == "**/dir/" and dirs:
            p = "**/" + os.path.basename(dirs[i % len(dirs)]) + "/"
        elif kind == "absfile" and files:
            p = inp + "/" + files[i % len(files)]
        elif kind == "absdir" and dirs:
            p = inp + "/" + dirs[i % len(dirs)]
        elif kind == "absdir/" and dirs:
            p = inp + "/" + dirs[i % len(dirs)] + "/"
        elif kind == "absglob-file" and files:
            # wildcard in the part of the absolute path that leads to the input directory
            parts = inp.split("/")
            parts[-2] = ["*", parts[-2][:4] + "*", "**"][i % 3]
            p = "/".join(parts) + "/" + files[i % len(files)]
        elif kind == "absglob-dir" and dirs:
            parts = inp.split("/")
            parts[-1] = ["i?", "*", "in*"][i % 3]
            p = "/".join(parts) + "/" + dirs[i % len(dirs)] + "/"
        elif kind == "absglob-input":
            parts = inp.split("/")
            parts[-1] = ["i*", "?n"][i % 2]
            p = "/".join(parts) + ("/" if i % 3 else "")
        elif kind == "input":
            p = inp if i % 2 else inp + "/"
        elif kind == "allcmake":
            p = "*.cmake" if i % 3 else ("**/" + os.path.basename(dirs[i % len(dirs)]) + "/*.cmake" if dirs else "*.cmake")
        if p is not None:
            out.append((p, src))
    return out


def cross_check(patterns, paths):
    """Own matcher vs pathspec on every (pattern, path): disagreement = harness error."""
    import pathspec
    for pat in patterns:
        spec = pathspec.PathSpec.from_lines(pathspec.patterns.GitWildMatchPattern, [pat])
        for p, is_dir in paths:
            mine = T.pattern_matches(pat, p, is_dir)
            theirs = spec.match_file(p + ("/" if is_dir else ""))
            if mine != theirs:
                raise HarnessError(f"pattern oracle disagreement: pattern {pat!r} path {p!r} dir={is_dir}: own={mine} pathspec={theirs}")


def add_samename(tree):
    import copy
    t = copy.deepcopy(tree)
    t["dirs"]["gen.cmake"] = {"files": {"inside.cmake": "function(inside_gen)\nendfunction()\n"}, "dirs": {}}
    t["files"]["dup.cmake"] = "function(dup_top)\nendfunction()\n"
    host = sorted(d for d in t["dirs"] if d != "gen.cmake")
    if host:
        t["dirs"][host[-1]]["files"]["gen.cmake"] = "function(gen_file)\nendfunction()\n"
        t["dirs"][host[-1]]["files"]["dup.cmake"] = "function(dup_deep)\nendfunction()\n"
    else:
        t["dirs"]["zz_host"] = {"files": {"gen.cmake": "function(gen_file)\nendfunction()\n",
                                          "dup.cmake": "function(dup_deep)\nendfunction()\n"}, "dirs": {}}
    return t


def evaluate(case):
    res = Result()
    tree = T.fill(case["tree"])
    if case.get("samename"):
        tree = add_samename(tree)
        res.labels.append("same-base-name-entries")
    with S.Sandbox("c15") as sb:
        inp = sb.path("in")
        out_parent = bool(case.get("out_parent")) and not case.get("via_link") and "in" not in tree["dirs"]
        if out_parent:
            inp = sb.path("p", "in")
            S.materialize(tree, inp)
            res.labels.append("output-is-parent-of-input")
        elif case.get("via_link"):
            os.makedirs(sb.path("real"))
            os.symlink("real", sb.path("via"))
            inp = sb.path("via", "in")
            S.materialize(tree, sb.path("real", "in"))
            res.labels.append("input-through-symlink")
        else:
            S.materialize(tree, inp)
        if case.get("alias") and tree["dirs"]:
            # a followed symbolic link to the first subdirectory; one pattern names the link
            import copy as _cp
            target = sorted(tree["dirs"])[0]
            os.symlink(target, os.path.join(inp, "zz_alias"))
            tree = {"files": tree["files"], "dirs": dict(tree["dirs"], zz_alias=_cp.deepcopy(tree["dirs"][target]))}
            res.labels.append("followed-symlinked-directory-named-by-a-pattern")
        cwd = sb.path("cwd")
        if case.get("cwd") == "input":
            cwd = inp                 # bare-name patterns then also name entries of the working directory
        elif case.get("cwd") == "subdir" and tree["dirs"]:
            cwd = os.path.join(inp, sorted(tree["dirs"])[0])
        pats = build_patterns(case, tree, inp)
        if case.get("samename"):
            # a directory-only pattern and a bare file name, both free of slashes
            pats = [(p, s) for p, s in pats if "/" not in p.rstrip("/")][:2] + [("gen.cmake/", case["samename"]),
                                                                                  ("dup.cmake", case["samename"])]
        if case.get("alias") and "zz_alias" in tree["dirs"]:
            pats = pats + [(["zz_alias/", "zz_alias", "zz_al*", inp + "/zz_alias", "**/zz_alias/"][case["alias"] % 5], "e")]
        plist = [p for p, _ in pats]
        all_paths = [(inp, True)] + [(inp + "/" + d, True) for d in S.tree_dirs(tree)] + \
                    [(inp + "/" + f, False) for f, _ in S.tree_files(tree)]
        cross_check(plist, all_paths)
        by_src = {"e": [], "s": [], "u": []}
        for p, src in pats:
            by_src[src].append(p)
        cfg = sb.path("settings.yaml")
        with open(cfg, "w") as f:
            f.write("input:\n  auto_exclude_directories_without_cmake: false\n")
            if case.get("alias"):
                f.write("  follow_symlinks: true\n")
            if by_src["s"]:
                f.write("  exclude_filters:\n" + "".join(f"    - {p!r}\n" for p in by_src["s"]))
        cfgdir = sb.path("cfg")
        if by_src["u"]:
            with open(os.path.join(cfgdir, "config.yaml"), "w") as f:
                f.write("input:\n  exclude_filters:\n" + "".join(f"    - {p!r}\n" for p in by_src["u"]))
        out = sb.path("p") if out_parent else sb.path("out")
        argv = [inp, "-o", out, "-s", cfg]
        if case.get("other_first"):
            first = sb.path("else", "zz_first")
            os.makedirs(first)
            with open(os.path.join(first, "zz_f.cmake"), "w") as f:
                f.write("function(zz_first_fn)\nendfunction()\n")
            argv = [first] + argv
            res.labels.append("another-input-first")
        if case["recursive"]:
            argv.append("-r")
        for p in by_src["e"]:
            argv += ["-e", p]
        if case.get("api_reuse") and not case.get("other_first"):
            import cminx
            import copy as _copy
            res.labels.append("settings-object-reused-with-other-patterns")
            captured = []
            orig = cminx.document
            cminx.document = lambda f, s_: captured.append((f, s_))
            try:
                run = S.run_main(argv, cwd=cwd, cfgdir=cfgdir, order=case["order"])
            finally:
                cminx.document = orig
            if run.exc is None and run.code == 0 and len(captured) == 1:
                f_, st_ = captured[0]
                real_filters = list(st_.input.exclude_filters)
                st_.input.exclude_filters = ["zz_matches_nothing", "*.nothing"]
                st_.output.directory = sb.path("out_first")
                import io as _io, contextlib as _cl
                with _cl.redirect_stdout(_io.StringIO()), _cl.redirect_stderr(_io.StringIO()), S.scandir_order(case["order"]):
                    old = os.getcwd()
                    os.chdir(cwd)
                    try:
                        cminx.document(f_, st_)
                        st_.input.exclude_filters = real_filters
                        st_.output.directory = out
                        cminx.document(f_, st_)
                    except BaseException as e:  # noqa
                        run.exc = e
                    finally:
                        os.chdir(old)
        else:
            run = S.run_main(argv, cwd=cwd, cfgdir=cfgdir, order=case["order"])
        if run.exc is not None or run.code != 0:
            res.fail(exc_key(run.exc) if run.exc else f"exit-{run.code}", (repr(run.exc) + run.stderr)[-300:])
            return res
        excluded = T.make_excluded(plist, inp)
        input_excluded = any(T.pattern_matches(p, inp, True) for p in plist)
        got = S.snapshot(out) if os.path.isdir(out) else {}
        if out_parent:
            got = {p: v for p, v in got.items() if p != "in" and not p.startswith("in/")}      # the input tree itself
        got_files = {p for p, v in got.items() if v[0] != "dir"}
        if case.get("other_first"):
            got_files.discard("zz_f.rst")            # the other input's own page
            if input_excluded:
                got_files.discard("index.rst")       # ... and its index
        if input_excluded:
            res.labels.append("input-excluded")
            if got_files:
                res.fail("output-for-excluded-input", f"input path excluded but {sorted(got_files)[:4]} written")
            want_files, pdirs, pfiles = set(), [], []
        else:
            want_files, pdirs, pfiles = T.expected_outputs(tree, case["recursive"], False, excluded)
            want_pages = {p for p in want_files if not p.endswith("index.rst")}
            got_pages = {p for p in got_files if not p.endswith("index.rst")}
            for p in sorted(got_pages - want_pages):
                src = p[:-4]
                d = os.path.dirname(p)
                in_excluded_dir = d != "" and any(excluded("/".join(d.split("/")[:i + 1]), True) for i in range(len(d.split("/"))))
                res.fail("page-for-excluded-file" if not in_excluded_dir else "page-inside-excluded-dir",
                         f"{p!r} written although excluded by {plist}")
            for p in sorted(want_pages - got_pages):
                res.fail("page-missing-for-included-file", f"{p!r} not written; patterns {plist}")
            # an excluded directory has no output directory content at all
            for d in S.tree_dirs(tree):
                if excluded(d, True) and any(g == d or g.startswith(d + "/") for g in got):
                    res.fail("output-inside-excluded-dir", f"output exists below excluded directory {d!r}; patterns {plist}")
        # statistics / non-triviality
        nt = False
        for d in [""] + S.tree_dirs(tree):
            node = S.subtree(tree, d)
            names = [(n, False) for n in node["files"]] + [(n, True) for n in node["dirs"]]
            hit = [n for n, isd in names if excluded((d + "/" if d else "") + n, isd)]
            if len(hit) >= 2:
                nt = True
                res.labels.append("siblings-matching>=2")
            cm = [n for n in node["files"] if T.is_cmake(n)]
            if cm and all(excluded((d + "/" if d else "") + n, False) for n in cm):
                nt = True
                res.labels.append("all-cmake-of-a-dir-excluded")
        res.nontrivial = nt and not input_excluded
        for p, src in pats:
            res.labels.append("source:" + src)
        res.labels.append("order:" + ("os" if case["order"] is None else "permuted"))
        if res.nontrivial:
            res.sample = {"files": sorted(p for p, _ in S.tree_files(tree)), "patterns": [(p.replace(sb.root, "<sb>"), s) for p, s in pats],
                          "order": case["order"], "pages": sorted(p for p in got_files if not p.endswith("index.rst"))}
    return res


def describe(case):
    tree = T.fill(case["tree"])
    if case.get("samename"):
        tree = add_samename(tree)
    return {"files": sorted(p for p, _ in S.tree_files(tree)), "dirs": S.tree_dirs(tree),
            "patterns": [(p, s) for p, s in build_patterns(case, tree, "<input>")], "order": case["order"],
            "recursive": case["recursive"]}
