"""C08 include_undocumented_* options only affect commands without a doccomment (metamorphic)."""
from hypothesis import strategies as st

from vlib import gen_cmake as G, render as R, model as M, rstview as V
from vlib.cminx_run import document_text, real_settings
from vlib.harness import Result
from .common import exc_key, short

ID = "C08"
LEVEL = "exploration"
RULE = ("modules mixing documented and undocumented commands of all ten include_undocumented_* kinds (documented and "
        "undocumented classes, siblings and nested, with documented and undocumented members) x 1..6 drawn flag vectors "
        "out of the 2^10 (weighted to single-flag-off, few-flags-off and all-off); oracle: metamorphic against the "
        "default run of the same module + AST knowledge: (a) every doc-carrying command's entry exists and its own "
        "rendering equals the default run's (classes: heading, bases, doc, each documented member), (b) no entry is "
        "named after an undocumented K-command when K is off, (c) members of hidden classes appear nowhere. "
        "Non-trivial: a vector switches off a flag whose kind occurs both documented and undocumented in the module; "
        "distinct by SHA-1 of the case")
RULE_MORE = 'deliberate duplicate names (entries are attributed by doc marker) and doccommented implementing definitions (their entry must not depend on the flags). Later: classes declared twice; one Settings object changed in place between the runs.'
ASSUMPTIONS = ["nothing is asserted about undocumented entries of kinds that stay on (e.g. an implementing definition that "
               "becomes an ordinary function when its declaration is hidden)",
               "names are unique per module, so entries are matched by name and doc marker"]
BUDGET = {"quick": {"shards": 8, "examples": 150}, "thorough": {"shards": 16, "examples": 3000}}

KINDS = M.FLAG_KINDS
ITEM_KIND = {"option": "option", "class": "cpp_class", "attr": "cpp_attr", "test": "ct_add_test",
             "section": "ct_add_section", "addtest": "add_test"}


def flag_kind(it):
    k = it["k"]
    if k == "func":
        return it["cmd"]
    if k == "member":
        return "cpp_constructor" if it["ctor"] else "cpp_member"
    return ITEM_KIND.get(k)


def in_known_region(case):
    """P10: include_undocumented_cpp_class off and the module contains a documented cpp_class."""
    has_doc_class = any(it["k"] == "class" and it.get("doc") for it, _, _ in G.walk(case["module"]["items"]))   # twins are undocumented
    return has_doc_class and any("cpp_class" in off for off in case["off"])


KNOWN = {"P10": {"region": in_known_region,
                 "keys": ["doc-member-lost:*", "class-inner-changed", "doc-member-changed:*", "doc-entry-missing:py:method",
                          "doc-entry-missing:py:attribute", "member-of-hidden-class-shown", "doc-entry-moved:py:method",
                          "doc-entry-moved:py:attribute", "doc-entry-missing:empty-doc:py:method",
                          "doc-entry-missing:empty-doc:py:attribute"]}}


def strategy(tier):
    p = G.Profile(max_items=7 if tier == "quick" else 10, depth=3, dangling=False, groups=False, moddoc=False, body_max=4,
                  impl_doc=True, dups=3, dup_classes=True,
                  weights={"class": 3, "test": 2, "func": 1, "generic": 1, "set": 1, "block": 1, "parseargs": 1})
    off = G.weighted((3, st.lists(st.sampled_from(KINDS), min_size=1, max_size=1)),
                     (3, st.lists(st.sampled_from(KINDS), min_size=1, max_size=4, unique=True)),
                     (1, st.just(list(KINDS))),
                     (2, st.sampled_from([["cpp_member", "cpp_constructor", "cpp_attr"], ["function", "macro"],
                                          ["ct_add_test", "ct_add_section", "add_test"],
                                          [k for k in KINDS if k != "cpp_class"], [k for k in KINDS if k != "function"],
                                          ["cpp_member", "cpp_constructor", "cpp_attr", "function", "macro"]])),
                     (1, st.lists(st.sampled_from(KINDS), min_size=5, max_size=10, unique=True)))
    return st.fixed_dictionaries({"module": G.module(p), "layout": G.layout_choices(16),
                                  "off": st.lists(off, min_size=1, max_size=3 if tier == "quick" else 6),
                                  # a class declared twice: first with undocumented members only, then with documented ones
                                  "twin_class": st.sampled_from([None, None, "attr", "member", "ctor"]),
                                  # one Settings object for all runs, its options changed in place between them
                                  "reuse_settings": st.sampled_from([False, False, True])})


def index_nodes(page):
    """All directive nodes of the page (entries and members) -> list of (node, parent)."""
    out = []

    def rec(n, parent):
        out.append((n, parent))
        for c in n.entries():
            rec(c, n)
    for n in page.entries():
        rec(n, None)
    return out


def own_text(node):
    """Rendering that belongs to the entry itself (not to member sub-entries)."""
    return (node.name, node.arg, tuple(node.options),
            tuple(x if x[0] != "dir" else ("dir", x[1].name, x[1].arg, tuple(x[1].raw)) for x in node.items
                  if x[0] != "blank" and not (x[0] == "dir" and x[1].name.startswith("py:"))))


def class_own(node):
    lines = [l for l in node.doc_lines() if l.strip()]
    return (node.name, node.arg, tuple(l for l in lines if not (l.startswith("**") or l.startswith("* "))))


def named_after(node, name):
    if node.name in ("data", "py:class", "py:attribute"):
        return node.arg == name
    return node.arg.startswith(name + "(")


def with_twin_class(module, kind):
    """Appends `cpp_class(TwCls B)` holding one undocumented member of `kind`, then the same class again (same name and
    bases, no doccomment) holding a documented attribute and a documented method."""
    import copy
    mod = copy.deepcopy(module)

    def member(name, ctor, doc):
        return {"k": "member", "ctor": ctor, "name": name, "cls": "TwCls", "types": ["int"], "doc": doc,
                "impl": {"selfname": "self", "cmd": "function", "params": ["tw_a"], "body": []}}

    def doc(tag):
        return {"lines": [f"Twin text. TW{tag}DOCM"], "form": "leader", "marker": f"TW{tag}DOCM"}
    first_body = [{"k": "attr", "cls": "TwCls", "name": "tw_plain", "extra": ["1"], "doc": None}] if kind == "attr" else \
                 [member("tw_plain", kind == "ctor", None)]
    # ... the documented method is an overload: an undocumented member of the same name precedes it
    second_body = [{"k": "attr", "cls": "TwCls", "name": "tw_documented_attr", "extra": [], "doc": doc("A")},
                   member("tw_documented_method", kind == "ctor", None),
                   member("tw_documented_method", kind == "ctor", doc("M"))]
    for body in (first_body, second_body):
        mod["items"].append({"k": "class", "name": "TwCls", "bases": ["TwBase"], "doc": None, "body": body})
    return mod


def evaluate(case):
    res = Result()
    module = with_twin_class(case["module"], case["twin_class"]) if case.get("twin_class") else case["module"]
    if case.get("twin_class"):
        res.labels.append("class-declared-twice")
    src = R.render(module, case["layout"])
    shared = real_settings(M.MSettings())
    if case.get("reuse_settings"):
        res.labels.append("one-settings-object-mutated-in-place")
    base = document_text(src, shared if case.get("reuse_settings") else real_settings(M.MSettings()))
    if base.exc is not None:
        res.fail("default:" + exc_key(base.exc), repr(base.exc)[:300])
        return res
    page0 = V.Page(base.text)
    nodes0 = index_nodes(page0)
    all_items = list(G.walk(module["items"]))
    documented = [(it, par) for it, _, par in all_items if it.get("doc") and it["k"] not in ("dangling",)]
    # an implementing definition with a doccomment of its own is a doc-carrying command as well
    documented += [({"k": "func", "cmd": it["impl"]["cmd"], "name": G.impl_name(it), "doc": it["impl"]["doc"]}, par) for it, _, par in all_items
                   if "impl" in it and it["impl"].get("doc")]
    names = [it.get("name") for it, _, _ in all_items] + [G.impl_name(it) for it, _, _ in all_items if "impl" in it]
    kinds_doc = {flag_kind(it) for it, _ in documented}
    kinds_undoc = {flag_kind(it) for it, _, _ in all_items if it.get("doc") is None}
    both = (kinds_doc & kinds_undoc) - {None}
    nt = False

    def find(nodes, marker):
        return [(n, par) for n, par in nodes if any(marker in l for l in n.raw) and
                not any(marker in l for c in n.entries() for l in c.raw)]

    for off in case["off"]:
        flags = {k: (k not in off) for k in KINDS}
        ms = M.MSettings(flags)
        res.labels.append(f"flags-off:{len(off)}")
        if set(off) & both:
            nt = True
        if case.get("reuse_settings"):
            for k in KINDS:
                setattr(shared.input, f"include_undocumented_{k}", flags[k])
            run = document_text(src, shared)
        else:
            run = document_text(src, real_settings(ms))
        if run.exc is not None:
            res.fail(exc_key(run.exc), f"off={off}: {run.exc!r}"[:300])
            continue
        page1 = V.Page(run.text)
        nodes1 = index_nodes(page1)
        # which classes are shown under this vector (members are shown only if their class is)
        hidden_members = set()          # ids of the member/attribute items whose class is hidden

        def mark(items, class_shown):
            for it in items:
                if it["k"] == "class":
                    shown = it.get("doc") is not None or flags["cpp_class"]
                    mark(it["body"], shown)
                elif it["k"] in ("attr", "member"):
                    if not class_shown:
                        hidden_members.add(id(it))
                    if "impl" in it:
                        mark(it["impl"]["body"], class_shown)
                elif "body" in it:
                    mark(it["body"], class_shown)
                elif "impl" in it:
                    mark(it["impl"]["body"], class_shown)
        mark(module["items"], True)
        # (a) doc-carrying commands keep their entry, unchanged
        for it, par in documented:
            marker = it["doc"]["marker"]
            if it["k"] in ("attr", "member") and id(it) in hidden_members:
                continue
            if not marker:
                # empty doccomment: no marker to follow, match the entry by its (unique) name
                if it["k"] in ("set", "generic", "block", "class") or names.count(it["name"]) != 1:
                    continue
                n0s = [n for n, _ in nodes0 if named_after(n, it["name"]) and (it["k"] not in ("test", "section", "addtest") or
                                                                               any(a[0] == "warning" for a in n.admonitions()))]
                n1s = [n for n, _ in nodes1 if named_after(n, it["name"]) and (it["k"] not in ("test", "section", "addtest") or
                                                                               any(a[0] == "warning" for a in n.admonitions()))]
                if len(n0s) == 1 and len(n1s) != 1:
                    res.fail("doc-entry-missing:empty-doc:" + n0s[0].name, f"off={off}: entry of {it['k']} {it.get('name', it.get('cmd', it['k']))!r} with an empty "
                             f"doccomment occurs {len(n1s)} times")
                continue
            d0 = find(nodes0, marker)
            if len(d0) != 1:
                continue    # not shown by default either (C02's business)
            d1 = find(nodes1, marker)
            n0, par0 = d0[0]
            if len(d1) != 1:
                key = "doc-member-lost:" if par0 is not None else "doc-entry-missing:"
                res.fail(key + n0.name, f"off={off}: entry of documented {it['k']} {it.get('name', it.get('cmd'))!r} occurs {len(d1)} times")
                continue
            n1, par1 = d1[0]
            if (par0 is None) != (par1 is None) or (par0 is not None and par0.arg != par1.arg):
                res.fail("doc-entry-moved:" + n0.name, f"off={off}: {it.get('name', it.get('cmd', it['k']))!r} moved from {par0 and par0.arg!r} to {par1 and par1.arg!r}")
            if n0.name == "py:class":
                if class_own(n0) != class_own(n1):
                    res.fail("doc-entry-changed:py:class", f"off={off}: class {it.get('name', it.get('cmd', it['k']))!r}: {class_own(n0)!r} vs {class_own(n1)!r}")
            elif own_text(n0) != own_text(n1):
                res.fail(("doc-member-changed:" if par0 is not None else "doc-entry-changed:") + n0.name,
                         f"off={off}: {it['k']} {it.get('name', it.get('cmd', it['k']))!r}: {own_text(n0)!r} vs {own_text(n1)!r}")
        # inner-class lists: documented inner classes stay listed in their (shown) outer class
        for it, _, par in all_items:
            if it["k"] == "class" and it.get("doc") and par is not None and par["k"] == "class" and \
                    (par.get("doc") or flags["cpp_class"]):
                outer = [n for n, _ in nodes1 if n.name == "py:class" and n.arg == par["name"]]
                if len(outer) == 1 and not any(f":class:`{it['name']}`" in l for l in outer[0].doc_lines()):
                    res.fail("class-inner-changed", f"off={off}: documented inner class {it.get('name', it.get('cmd', it['k']))!r} not listed in {par['name']!r}")
        for n, _ in nodes1:
            if n.name == "py:class":
                listed = [l for l in n.doc_lines() if l.startswith("* :class:")]
                src_clss = [it for it, _, _ in all_items if it["k"] == "class" and it["name"] == n.arg]      # may be declared twice
                if src_clss:
                    inner_names = set()
                    for src_cls in src_clss:
                        inner_names |= {c["name"] for c in src_cls["body"] if c["k"] == "class"} | \
                                       {c["name"] for b in src_cls["body"] if b["k"] == "block" for c in b["body"] if c["k"] == "class"}
                    for l in listed:
                        nm = l[len("* :class:`"):-1]
                        if nm not in inner_names:
                            res.fail("class-inner-changed", f"off={off}: {n.arg!r} lists {nm!r} which is not defined inside it")
        # (b) nothing named after an undocumented K-command when K is off
        region = in_known_region(case)
        def may_show(o):
            """commands that may legitimately have an entry under this vector"""
            if o["k"] in ("attr", "member") and id(o) in hidden_members:
                # inside the region of the known finding P10 the leaked class stack shows members of hidden classes -
                # documented ones and undocumented ones whose own flag is on (reported by clause (c) as
                # member-of-hidden-class-shown); their entries are theirs, not those of a namesake whose flag is off
                return region and (bool(o.get("doc")) or flags[flag_kind(o)])
            ko = flag_kind(o)
            return o.get("doc") is not None or ko is None or flags[ko]

        def unmarked(hits, name):
            """entries that do not carry the doc marker of a documented command of the same name (deliberate duplicates)"""
            marks = [o["doc"]["marker"] for o, _, _ in all_items if o.get("name") == name and o.get("doc") and o["doc"].get("marker")]
            return [n for n in hits if not any(m in l for m in marks for l in n.raw)]
        for it, _, par in all_items:
            k = flag_kind(it)
            if k and it.get("doc") is None and not flags[k]:
                if region and it["k"] in ("attr", "member") and \
                        sum(1 for o, _, _ in all_items if o["k"] in ("attr", "member") and o["name"] == it["name"]) > 1:
                    continue      # inside the P10 region entries of same-named members cannot be told apart (the leak moves them)
                hits = [n for n, _ in nodes1 if named_after(n, it["name"])]
                if k in ("ct_add_test", "ct_add_section", "add_test"):
                    # the implementing definition of a hidden test may legitimately show up as an ordinary
                    # function of the same name; the test's own entry is the one carrying the do-not-call warning
                    hits = [n for n in hits if any(a[0] == "warning" for a in n.admonitions())]
                hits = unmarked(hits, it["name"])
                # other commands of the same name that are shown without a marker account for their own entries
                allowed = sum(1 for o, _, _ in all_items if o is not it and o.get("name") == it["name"]
                              and o["k"] not in ("dangling", "parseargs") and may_show(o)
                              and not (o.get("doc") and o["doc"].get("marker")))
                if len(hits) > allowed:
                    res.fail(f"undocumented-shown:{k}", f"off={off}: undocumented {k} {it.get('name', it.get('cmd', it['k']))!r} has an entry {hits[0].name} {hits[0].arg!r}")
        # (c) members of hidden classes appear nowhere
        for it, _, par in all_items:
            if it["k"] in ("attr", "member") and id(it) in hidden_members:
                hits = [n for n, p in nodes1 if n.name in ("py:method", "py:attribute") and named_after(n, it["name"])]
                if it.get("doc") and it["doc"].get("marker"):
                    hits = [n for n in hits if any(it["doc"]["marker"] in l for l in n.raw)]
                else:
                    hits = unmarked(hits, it["name"])
                allowed = sum(1 for o, _, _ in all_items if o is not it and o["k"] in ("attr", "member") and o["name"] == it["name"]
                              and id(o) not in hidden_members and not (o.get("doc") and o["doc"].get("marker")))
                if len(hits) > (0 if it.get("doc") and it["doc"].get("marker") else allowed):
                    res.fail("member-of-hidden-class-shown", f"off={off}: {it.get('name', it.get('cmd', it['k']))!r} shown although its class is hidden")
    res.nontrivial = nt
    for k in sorted(both):
        res.labels.append("both:" + k)
    if in_known_region(case):
        res.labels.append("in-known-region-P10")
    if nt:
        res.sample = {"off": case["off"], "source": short(src, 600)}
    return res


def describe(case):
    module = with_twin_class(case["module"], case["twin_class"]) if case.get("twin_class") else case["module"]
    return {"off": case["off"], "source": R.render(module, case["layout"])}
