"""C20 RSTWriter serialisation is pure and keeps nested content indented.

Stateful, model-based: a generated history of public-API operations is applied to a real
RSTWriter document and to a reference document model (written from the property text, shares no
code with cminx.rstwriter); invariants are evaluated after every step.
"""
from hypothesis import strategies as st

from vlib.harness import Result, HarnessError

ID = "C20"
LEVEL = "exploration"
RULE = ("histories of 1..40 public RSTWriter API operations (text/field/bulleted_list/enumerated_list/"
        "directive/option/section/title=/clear/to_text) on any open container, drawn header lists; after "
        "every step: to_text() twice identical, structure snapshot unchanged, non-blank line sequence == "
        "reference model, options contiguous after their heading. Non-trivial: the history builds a "
        "directive nested inside another directive that carries an option and a multi-line paragraph, and "
        "contains a title change or clear(); distinct by SHA-1 of the operation list")
RULE_MORE = 'directive rename; header lists as tuple / str and with > 10 characters; deep section chains; splitlines characters; a long paragraph at several depths.'
ASSUMPTIONS = ["titles, names, items and field values are single-line and contain a non-space character "
               "(the property speaks of lines); sections are created on writers/sections only",
               "blank/whitespace-only lines are not constrained by the property and are ignored"]
BUDGET = {"quick": {"shards": 8, "examples": 400}, "thorough": {"shards": 16, "examples": 4000}}

HEADER_POOL = list("#*=-_~!&@^+:.'\"`$%<>\\|")

_word = st.text(alphabet="abcdefgXYZ019_-*:.#[]`|\\é漢 ", min_size=1, max_size=12).filter(lambda s: s.strip() != "")
_name = st.text(alphabet="abcdefgXYZ_-:", min_size=1, max_size=8).filter(lambda s: s.strip() != "")
_line = st.one_of(
    _word,
    st.builds(lambda n, w: " " * n + w, st.integers(0, 7), _word),
    st.sampled_from(["", "   ", ".. note:: x", ":field: v", "* item", "   indented", "#. x", "::"]),
    # characters str.splitlines() treats as line boundaries (the writer's lines are separated by LF only)
    st.sampled_from(["form\x0cfeed", "nel\x85x", "ls\u2028x", "fs\x1cgs\x1dx", "lone\rcr", "vt\x0bx"]),
)
LONG_TEXT = " ".join(f"word{i}" for i in range(60)) + "\nsecond line of the long paragraph"       # > 256 characters
_text = st.one_of(st.lists(_line, min_size=1, max_size=5).map("\n".join), st.lists(_line, min_size=1, max_size=5).map("\n".join),
                  st.lists(_line, min_size=1, max_size=5).map("\n".join), st.just(LONG_TEXT))

_tgt = st.sampled_from([0, 0, 0, 0, 1, 1, 2, 3, 5, 8, 13, 21, 34, 50])

_op = st.one_of(
    st.tuples(st.just("text"), _tgt, _text),
    st.tuples(st.just("text"), _tgt, _text),
    st.tuples(st.just("field"), _tgt, _name, _word),
    st.tuples(st.just("bulleted_list"), _tgt, st.lists(_word, min_size=1, max_size=4)),
    st.tuples(st.just("enumerated_list"), _tgt, st.lists(_word, min_size=1, max_size=4)),
    st.tuples(st.just("enumerated_list"), _tgt, st.lists(_word, min_size=9, max_size=13)),
    st.tuples(st.just("bulleted_list"), _tgt, st.lists(_word, min_size=9, max_size=11)),
    st.tuples(st.just("directive"), _tgt, _name, st.lists(_word, max_size=2)),
    st.tuples(st.just("directive"), _tgt, _name, st.lists(_word, max_size=2)),
    st.tuples(st.just("option"), _tgt, _name, st.one_of(st.just(""), _word)),
    st.tuples(st.just("section"), _tgt, _word),
    st.tuples(st.just("title"), _tgt, _word),
    st.tuples(st.just("retitle-directive"), _tgt, _name),
    st.tuples(st.just("clear"), _tgt),
    st.tuples(st.just("foreign-document"), _tgt, st.lists(st.sampled_from(HEADER_POOL), min_size=1, max_size=4, unique=True)),
    st.tuples(st.just("to_text"), _tgt),
).map(list)


_ml_text = st.lists(_word, min_size=2, max_size=4).map("\n".join)
_deep_prefix = st.builds(
    lambda n1, a1, n2, on, ov, t, extra: [["directive", 0, n1, a1], ["directive", 0, n2, []],
                                          ["option", 0, on, ov], ["text", 0, t]] + extra,
    _name, st.lists(_word, max_size=2), _name, _name, _word, _ml_text,
    st.lists(st.sampled_from([["title", 0, "New title"], ["clear", 1], ["clear", 5], ["directive", 0, "d3", []],
                              ["text", 1, "a\n  b"], ["option", 1, "o", ""], ["section", 0, "S"]]), max_size=3))


# a chain of nested sections as deep as the header list allows (each 'section' targets the most recent writer)
_section_chain = st.builds(lambda n, tail: [["section", 0, f"S{i}"] for i in range(n)] + [["title", 0, "Deep title"], ["text", 0, "deep"]] + tail,
                           st.integers(9, 13), st.lists(_op, max_size=4))


def strategy(tier):
    nmax = 25 if tier == "quick" else 40
    ops = st.lists(_op, min_size=1, max_size=nmax)
    ops = st.one_of(ops, ops, ops, st.builds(lambda a, b, c: a + b + c, st.lists(_op, max_size=4), _deep_prefix, ops),
                    st.builds(lambda a, b, c: a + b + c, st.lists(_op, max_size=4), _deep_prefix, ops), _section_chain)
    return st.fixed_dictionaries({
        "headers": st.one_of(st.lists(st.sampled_from(HEADER_POOL), min_size=1, max_size=10, unique=True),
                             st.lists(st.sampled_from(HEADER_POOL), min_size=11, max_size=16, unique=True)),
        "title": _word,
        "ops": ops,
        # the configured header characters as a list, a tuple (the type of RSTSettings' own default) or a string
        "hdr_type": st.sampled_from(["list", "tuple", "list", "str"]),
    })


def _unused(tier):
    nmax = 25
    return st.fixed_dictionaries({
        "headers": st.lists(st.sampled_from(HEADER_POOL), min_size=1, max_size=10, unique=True),
        "title": _word,
        "ops": st.lists(_op, min_size=1, max_size=nmax),
    })


# ------------------------------------------------------------------ reference model

class M:
    """Model container: writer/section (kind 'w') or directive (kind 'd')."""

    def __init__(self, kind, title, depth, level, args=()):
        self.kind, self.title, self.depth, self.level, self.args = kind, title, depth, level, list(args)
        self.options = []
        self.children = []   # ("lines", [str]) | ("c", M)

    def lines(self, headers, out):
        ind = " " * (3 * self.depth)
        if self.kind == "w":
            bar = headers[self.level] * len(self.title)
            out += [("h", bar), ("h", self.title), ("h", bar)]
        else:
            out.append(("dh", " " * (3 * (self.depth - 1)) + f".. {self.title}:: " + ",".join(self.args)))
            for n, v in self.options:
                out.append(("opt", f"{ind}:{n}: {v}"))
            out.append(("endopt", None))
        for kind, c in self.children:
            if kind == "c":
                c.lines(headers, out)
            else:
                out += [("l", x) for x in c]


def model_text_lines(root, headers):
    out = []
    root.lines(headers, out)
    return out


def snapshot(obj):
    """Deep copy of the public structure of a real writer."""
    from cminx import rstwriter as R
    if isinstance(obj, R.RSTWriter):
        d = {"type": type(obj).__name__, "title": obj.title, "indent": obj.indent,
             "level": obj.section_level, "doc": [snapshot(e) for e in obj.document]}
        if isinstance(obj, R.Directive):
            d["args"] = list(obj.arguments)
            d["options"] = [snapshot(o) for o in obj.options]
        return d
    d = {"type": type(obj).__name__}
    for k, v in sorted(vars(obj).items()):
        d[k] = list(v) if isinstance(v, (list, tuple)) else v
    return d


def evaluate(case):
    from cminx import rstwriter as R
    from cminx.config import Settings
    res = Result()
    headers = case["headers"]
    settings = Settings()
    settings.rst.headers = {"tuple": tuple(headers), "str": "".join(headers)}.get(case.get("hdr_type"), list(headers))
    try:
        real_root = R.RSTWriter(case["title"], settings=settings)
    except Exception as e:
        res.fail("exception:" + type(e).__name__, f"constructing the writer: {e!r}")
        return res
    model_root = M("w", case["title"], 0, 0)
    open_c = [(real_root, model_root)]
    flags = set()

    def descendants(m):
        for kind, c in m.children:
            if kind == "c":
                yield c
                yield from descendants(c)

    def check(step):
        try:
            snap0 = snapshot(real_root)
            t1 = real_root.to_text()
            snap1 = snapshot(real_root)
            t2 = str(real_root)
        except Exception as e:
            res.fail("exception:" + type(e).__name__, f"step {step}: {e!r}")
            return False
        if t1 != t2:
            res.fail("repeatable", f"step {step}: second serialisation differs")
        if snap0 != snap1:
            res.fail("mutated-by-to_text", f"step {step}: document changed by serialisation")
        exp = model_text_lines(model_root, headers)
        exp_k = [(k, x) for k, x in exp if x is not None and x.strip() != ""]
        exp_nb = [x for k, x in exp_k]
        act = t1.split("\n")
        act_idx = [i for i, x in enumerate(act) if x.strip() != ""]
        act_nb = [act[i] for i in act_idx]
        if exp_nb != act_nb:
            # localise
            i = 0
            while i < min(len(exp_nb), len(act_nb)) and exp_nb[i] == act_nb[i]:
                i += 1
            e = exp_nb[i] if i < len(exp_nb) else "<end>"
            a = act_nb[i] if i < len(act_nb) else "<end>"
            kind = "order-or-content"
            if e.strip() == a.strip():
                kind = "indentation"
            elif i < len(exp_nb) and set(e) <= set(headers) and len(e) != len(a):
                kind = "heading-frame"
            res.fail("lines:" + kind, f"step {step}: line {i}: expected {e!r} got {a!r}")
            return False
        # options directly after their heading: walk actual lines with the model
        for i, (k, x) in enumerate(exp_k):
            if k == "opt" and act_idx[i] != act_idx[i - 1] + 1:
                res.fail("option-not-contiguous", f"step {step}: option {x!r} not directly after its heading")
                return False
        return True

    for step, op in enumerate(case["ops"]):
        name, ti = op[0], op[1]
        real, model = open_c[-1 - (ti % len(open_c))]
        try:
            if name == "text":
                real.text(op[2])
                ind = " " * (3 * model.depth)
                model.children.append(("lines", [ind + l for l in op[2].split("\n")]))
                if model.kind == "d" and model.depth >= 2 and "\n" in op[2].strip("\n") and \
                        len([l for l in op[2].split("\n") if l.strip()]) >= 2:
                    model_flag = getattr(model, "flags", set())
                    model_flag.add("ml")
                    model.flags = model_flag
            elif name == "field":
                real.field(op[2], op[3])
                model.children.append(("lines", [" " * (3 * model.depth) + f":{op[2]}: {op[3]}"]))
            elif name == "bulleted_list":
                real.bulleted_list(*op[2])
                model.children.append(("lines", [" " * (3 * model.depth) + "* " + it for it in op[2]]))
            elif name == "enumerated_list":
                real.enumerated_list(*op[2])
                model.children.append(("lines", [" " * (3 * model.depth) + f"{i + 1}. {it}"
                                                 for i, it in enumerate(op[2])]))
            elif name == "directive":
                if model.depth >= 6:
                    continue
                r2 = real.directive(op[2], *op[3])
                m2 = M("d", op[2], model.depth + 1, model.level, op[3])
                model.children.append(("c", m2))
                open_c.append((r2, m2))
            elif name == "option":
                cands = [(r, m) for r, m in open_c if m.kind == "d"]
                if not cands:
                    continue
                real, model = cands[-1 - (ti % len(cands))]
                real.option(op[2], op[3])
                model.options.append((op[2], op[3]))
                if model.depth >= 2:
                    f = getattr(model, "flags", set())
                    f.add("opt")
                    model.flags = f
            elif name == "section":
                cands = [(r, m) for r, m in open_c if m.kind == "w" and m.level + 1 < len(headers)]
                if not cands:
                    continue
                real, model = cands[-1 - (ti % len(cands))]
                r2 = real.section(op[2])
                m2 = M("w", op[2], 0, model.level + 1)
                model.children.append(("c", m2))
                open_c.append((r2, m2))
            elif name == "title":
                cands = [(r, m) for r, m in open_c if m.kind == "w"]
                real, model = cands[-1 - (ti % len(cands))]
                real.title = op[2]
                model.title = op[2]
                flags.add("title-change")
            elif name == "retitle-directive":
                cands = [(r, m) for r, m in open_c if m.kind == "d"]
                if not cands:
                    continue
                real, model = cands[-1 - (ti % len(cands))]
                real.title = op[2]          # the title of a directive is its name: '.. <name>:: args'
                model.title = op[2]
                flags.add("directive-renamed")
            elif name == "clear":
                cands = [(r, m) for r, m in open_c if m.kind == "w" or not m.options]
                if not cands:
                    continue
                real, model = cands[-1 - (ti % len(cands))]
                real.clear()
                gone = set(id(x) for x in descendants(model))
                model.children = []
                open_c[:] = [(r, m) for r, m in open_c if id(m) not in gone]
                flags.add("clear")
            elif name == "foreign-document":
                # an unrelated document with its own header characters lives in the same process
                s2 = Settings()
                s2.rst.headers = list(op[2])
                other = R.RSTWriter("Other document", settings=s2)
                other.directive("note", "x").text("y")
                if len(op[2]) > 1:
                    other.section("sub")
                other.to_text()
                flags.add("foreign-document")
            elif name == "to_text":
                real.to_text()
        except Exception as e:
            res.fail("exception:" + type(e).__name__, f"step {step} {op!r}: {e!r}")
            break
        if getattr(model, "flags", set()) >= {"ml", "opt"}:
            flags.add("ever-deep")
        if not check(step):
            break

    deep = "ever-deep" in flags
    res.nontrivial = bool(deep) and bool(flags & {"title-change", "clear"}) and len(case["ops"]) >= 2
    for f in sorted(flags):
        res.labels.append(f)
    res.labels.append("depth>=2" if any(m.depth >= 2 for m in descendants(model_root)) else "depth<2")
    if any(m.kind == "w" for m in descendants(model_root)):
        res.labels.append("has-section")
    if res.nontrivial:
        res.sample = {"headers": headers, "title": case["title"], "ops": case["ops"][:12]}
    return res


def describe(case):
    return {"ops": case["ops"]}
