"""C11 Test entries carry the declared name, EXPECTFAIL flag and arguments."""
from hypothesis import strategies as st

from vlib import gen_cmake as G, render as R, model as M, rstview as V, compare as C
from vlib.cminx_run import document_text, real_settings
from vlib.harness import Result
from .common import exc_key, short

ID = "C11"
LEVEL = "exploration"
RULE = ("modules of ct_add_test / ct_add_section / add_test commands with NAME at any argument position, with or without "
        "EXPECTFAIL (before or after NAME), further arguments that equal the test name, contain NAME/EXPECTFAIL as a "
        "substring or repeat each other, names in all single-argument forms, tests containing 0..n sections nested to "
        "depth 3-4 inside function or macro implementations, documented or not; oracle = reference model vs line view: "
        "entry name, EXPECTFAIL in the signature iff present, add_test signature = all arguments but the NAME pair in "
        "order, the matching do-not-call warning, sections as own entries in source order. Non-trivial: NAME not "
        "first, or an argument equal to the name, or a keyword-substring argument; distinct by SHA-1 of the case")
RULE_MORE = "large modules as in C01 (mostly documented, so that hundreds of documented commands occur in one file). Later: NAME after up to 1000 long arguments; names with '%' and decomposed characters."
ASSUMPTIONS = ["every test command carries exactly one NAME <value> pair; argument values never equal NAME or EXPECTFAIL",
               "declarations are directly followed by their undocumented implementing definition"]
BUDGET = {"quick": {"shards": 8, "examples": 250}, "thorough": {"shards": 16, "examples": 4000}}


def strategy(tier, repeat=None):
    p = G.Profile(kinds={"test", "section", "addtest", "func", "block", "generic", "set"}, max_items=6 if tier == "quick" else 10,
                  depth=3 if tier == "quick" else 4, dangling=False, groups=False, impl_doc=True, dups=2, moddoc=False, body_max=3)
    if repeat is not None:
        p.p_doc_mostly = True
    return st.fixed_dictionaries({"module": G.module(p, repeat), "layout": G.layout_choices(24), "twins": st.sampled_from([True, False, False])})


def with_twins(module):
    """After ct_add_test(NAME n EXPECTFAIL) add ct_add_test(NAME nEXPECTFAIL): same characters, other boundaries."""
    import copy
    mod = copy.deepcopy(module)

    def rec(items):
        out = []
        for it in items:
            out.append(it)
            for key in ("body",):
                if key in it:
                    it[key] = rec(it[key])
            if "impl" in it:
                it["impl"]["body"] = rec(it["impl"]["body"])
            if it["k"] in ("test", "section") and it["name"].isidentifier() and it["post"][:1] == ["EXPECTFAIL"] and not it["pre"]:
                tw = copy.deepcopy(it)
                tw["name"] = it["name"] + "EXPECTFAIL"
                tw["post"] = it["post"][1:]
                tw["doc"] = None
                tw["impl"]["body"] = []
                out.append(tw)
        return out
    mod["items"] = rec(mod["items"])
    return mod


def extra(ctx):
    """A few modules of hundreds of items: the drawn item list is tiled 25..45 times, every copy with names of its own."""
    from .common import large_campaign
    large_campaign(ctx, strategy("quick", repeat=st.integers(25, 45)), evaluate, 4 if ctx.tier == "quick" else 32)
    # NAME far to the right: hundreds of arguments in front of it (boundaries around 2^8 and beyond)
    from vlib.harness import safe_evaluate
    import sys
    for n in (40, 254, 255, 256, 257, 300, 1000):
        for documented in (False, True):
            item = {"k": "addtest", "pre": [f"--case=matrix_{j:04d}_of_the_run" for j in range(n)], "name": f"far_right_{n}", "post": ["COMMAND", "run_it"],
                    "doc": {"lines": [f"Far right. FARDOC{n}M"], "form": "leader", "marker": f"FARDOC{n}M"} if documented else None}
            case = {"module": {"moddoc": None, "items": [item]}, "layout": [], "twins": False}
            r = safe_evaluate(sys.modules[__name__], case)
            r.labels.append("add_test-with-hundreds-of-arguments")
            ctx.record(case, r)


def evaluate(case):
    res = Result()
    module = with_twins(case["module"]) if case.get("twins") else case["module"]
    src = R.render(module, case["layout"])
    tests = [(it, d) for it, d, _ in G.walk(module["items"]) if it["k"] in ("test", "section", "addtest")]
    nt = False
    for it, depth in tests:
        res.labels.append(f"{it['k']}:" + ("doc" if it["doc"] else "undoc"))
        if it["pre"]:
            res.labels.append("NAME-not-first"); nt = True
        others = it["pre"] + it["post"]
        if it["name"] in others:
            res.labels.append("arg-equals-name"); nt = True
        if any(("NAME" in a or "EXPECTFAIL" in a) and a not in ("NAME", "EXPECTFAIL") for a in others + [it["name"]]):
            res.labels.append("keyword-substring-arg"); nt = True
        if "EXPECTFAIL" in others:
            res.labels.append("EXPECTFAIL:" + ("before-NAME" if "EXPECTFAIL" in it["pre"] else "after-NAME"))
        if it["k"] == "section" and depth >= 2:
            res.labels.append("section-depth>=2")
    res.nontrivial = nt
    if nt:
        res.sample = {"source": short(src, 600)}
    run = document_text(src, real_settings())
    if run.exc is not None:
        res.fail(exc_key(run.exc), repr(run.exc)[:300])
        return res
    page = V.Page(run.text)
    exp = M.expected(module)
    for key, detail in C.compare_entries(exp, page):
        kind = key.split(":")[1] if ":" in key else ""
        if kind in ("test", "section", "addtest") or key.startswith("extra:function") or key.startswith("mismatch"):
            res.fail(key, detail)
    return res


def describe(case):
    module = with_twins(case["module"]) if case.get("twins") else case["module"]
    return {"source": R.render(module, case["layout"])}
