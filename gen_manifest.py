#!/venv/bin/python
"""Writes MANIFEST.json from the table below (kept as code so the file stays consistent)."""
import json, os
HERE = os.path.dirname(os.path.abspath(__file__))
PY = "/venv/bin/python"

CHECKS = {
 "C20": dict(level="exploration", design="4/C20", engine="stateful-writer-model",
    technique="stateful model-based testing: generated API histories vs reference document model, invariants after every step",
    text="Generated histories of public RSTWriter API calls are applied to the real writer and to an independent reference model; after every step serialisation must be repeatable, non-mutating and line-for-line equal to the model (indentation 3*d, option placement, heading frame). Exploration only: thousands of histories per run, no exhaustiveness.",
    note="Trusts CPython and Hypothesis; the reference model in props/C20.py is written from the property text. Blank lines are not constrained."),
}
CHECKS["C02"] = dict(level="exploration", design="4/C02", engine="module-generator-and-model",
    technique="property-based testing: generated module ASTs + layouts, reference model vs indentation view of the page",
    text="Random module ASTs (all command kinds, nesting, documented/undocumented, dangling doccomments, comment-rich layouts, mixed-case command names) are rendered and documented with default settings; the sequence, kind, signature, admonition, doc and members of every entry must equal an independent reference model, and comment/undocumented/dangling markers must be absent. Exploration: thousands of modules per run.",
    note="Trusts the reference model (vlib/model.py, written from the property text and user docs), the renderer's soundness rules (validated against cmake in C05) and the indentation parser of vlib/rstview.py; doc texts are benign.")
GEN_NOTE = "Trusts the renderer's soundness rules (validated against cmake in C05), CPython, Hypothesis. "
CHECKS["C01"] = dict(level="exploration", design="4/C01", engine="module-generator-and-model",
    technique="property-based testing: generated doccomment bodies (arbitrary printable Unicode), construction-knowledge oracle on the line view",
    text="Every generated doccomment (arbitrary printable Unicode lines, leader-set characters, leading/trailing spaces, empty lines, space/tab block indentation, leader-less form, all item kinds and nesting, @module docs) must reappear line for line, contiguous, once, inside the block of its owning entry; checked on Documenter output and, for a sample, on the UTF-8 file written by `cminx -o`.",
    note=GEN_NOTE + "Owner lookup uses the reference model validated by C02; whitespace-only output lines stand for blank doc lines.")
CHECKS["C03"] = dict(level="exploration", design="4/C03", engine="module-generator-and-model",
    technique="property-based testing: generated definitions x cmake_parse_arguments placements x drawn trigger/strip settings, reference model for signatures",
    text="Function/macro definitions at any nesting with cmake_parse_arguments calls in every placement class, under drawn trigger strings (present, near-miss, case-swapped) and independent strip regexes; the `.. function::` argument must equal name(stripped params [**kwargs]) computed by the model.",
    note=GEN_NOTE + "Python's re computes expected stripping.")
CHECKS["C04"] = dict(level="exploration", design="4/C04", engine="module-generator-and-model",
    technique="metamorphic property-based testing: same token sequence under canonical vs drawn layouts (+CRLF), byte comparison",
    text="Each module AST is rendered in the canonical layout and 1-3 random layouts (whitespace, all comment shapes incl. code/delimiter look-alikes, comments inside argument lists and between doccomment and command, doc block re-indentation with spaces/tabs, per-occurrence command casing, missing final newline) and as CRLF; outputs must be byte-identical (CRLF: modulo CR and whitespace-only lines).",
    note=GEN_NOTE + "Two layouts share the token sequence by construction (same AST, same argument strings).")
MODEL_NOTE = GEN_NOTE + "Trusts the reference model (vlib/model.py) and the indentation parser (vlib/rstview.py); doc texts are benign."
CHECKS["C09"] = dict(level="exploration", design="4/C09", engine="module-generator-and-model",
    technique="property-based testing: generated class forests x member strip patterns, reference model vs nested line view",
    text="Generated class forests (siblings, nesting to depth 3-5, attributes/members/constructors in any order, implementations that are functions or macros with bodies, documented or not, commands between and after classes) under drawn member strip patterns; member placement, order, inner-class lists, method parameters, :type pairs, macro notes, :value: and bases must equal the reference model.",
    note=MODEL_NOTE)
CHECKS["C10"] = dict(level="exploration", design="4/C10", engine="module-generator-and-model",
    technique="property-based testing: generated set()/option() commands in every argument form, reference model vs raw field lines",
    text="set() with 0..5 values in every single-argument form (incl. empty string, escaped quotes, brackets, single characters, unquoted values ending in an escaped quote) and option() with/without default, documented or not, anywhere in a module; name, type by value count, default as written, option note/help/default/bool are compared with the model on the raw line view.",
    note=MODEL_NOTE)
CHECKS["C11"] = dict(level="exploration", design="4/C11", engine="module-generator-and-model",
    technique="property-based testing: generated ct_add_test/ct_add_section/add_test argument lists and section nesting, reference model",
    text="Test commands with NAME at any position, EXPECTFAIL before/after NAME, arguments equal to the name or containing keyword substrings, names in all argument forms, sections nested to depth 3-4 in function or macro implementations; name, EXPECTFAIL flag, add_test signature (all arguments but the NAME pair, in order), warning class and entry order must equal the model.",
    note=MODEL_NOTE)
CHECKS["C07"] = dict(level="exploration", design="4/C07", engine="module-generator-and-model",
    technique="property-based testing: doc bodies generated from a reST grammar, docutils doctree (stub Sphinx directives) as structural judge",
    text="Modules of every entry kind whose doc bodies are built from valid reST constructs (paragraphs, field lists, lists, literal blocks, nested directives; bodies ending in each of them) are documented and the page is parsed by docutils with stub directives: no error-level message, one title, one module node first, exactly the expected entry nodes as section-level siblings, every doc marker / generated admonition / field / member inside its own entry node only.",
    note=GEN_NOTE + "docutils 0.23 is the independent structure judge; Sphinx directives are stubbed (content parsed as nested body); expected entry kinds come from the reference model.")
CHECKS["C08"] = dict(level="exploration", design="4/C08", engine="module-generator-and-model",
    technique="metamorphic property-based testing: same module under drawn include_undocumented_* vectors vs the default run, plus AST knowledge",
    text="Each generated module (documented and undocumented commands of all ten kinds, documented/undocumented classes and members, nesting) is documented under the default flags and under 1-6 drawn flag vectors; every doc-carrying entry must persist with an identical own rendering, no entry may be named after an undocumented command whose flag is off, members of hidden classes must not appear. Known finding P10 (documented class + cpp_class flag off) is reported as KNOWN-FINDING and its clauses are skipped only inside that region.",
    note=GEN_NOTE + "Entries are matched by unique names and doc markers; nothing is asserted about undocumented entries of kinds that stay on.")
SBX_NOTE = "Runs cminx.main in-process inside a /dev/shm sandbox with cwd, user-config directory and os.scandir order owned by the harness; trusts the walk model / pattern matcher in vlib/gen_tree.py (written from the property text; the matcher is cross-checked against pathspec on every pair). Symlinks and unreadable entries are not generated."
CHECKS["C13"] = dict(level="exploration", design="4/C13", engine="sandbox-and-walk-model",
    technique="property-based testing: generated directory trees x options x listing permutations, walk model + single-file differential",
    text="Generated trees (empty dirs, non-CMake look-alike files, mixed-case extensions, dotted/dashed names) are documented under drawn recursive/auto-exclusion/prefix/output-location/listing-order choices; the output tree must equal the model's expected file and directory set exactly and every page must equal the single-file run of its source modulo title and module name.",
    note=SBX_NOTE)
CHECKS["C14"] = dict(level="exploration", design="4/C14", engine="sandbox-and-walk-model",
    technique="property-based testing: generated trees x patterns x auto-exclusion, closure invariant over the written index.rst graph",
    text="For trees crossed with exclude patterns, auto-exclusion, recursion, prefixes and listing orders, every index.rst must hold one toctree whose entries are distinct, equal the pages present beside it and (recursive) the sub-indexes present below it, every target must exist, every page and index must be reachable from the top index, titles must name the directory; where the walk model is unambiguous the indexed directories must equal the processed ones.",
    note=SBX_NOTE)
CHECKS["C15"] = dict(level="exploration", design="4/C15", engine="sandbox-and-walk-model",
    technique="property-based testing: generated trees x gitignore pattern sets x pattern sources x listing permutations, independent matcher cross-checked with pathspec",
    text="Pattern sets built from the tree's own names (bare names, dir/, globs, **/ forms, absolute paths, the input path) are delivered through -e, -s and the user configuration under permuted directory listings; a page must exist iff neither the file nor a directory above it matches, excluded directories must have no output, an excluded input no output at all.",
    note=SBX_NOTE)
CHECKS["C12"] = dict(level="exploration", design="4/C12", engine="sandbox-and-walk-model",
    technique="property-based testing: generated trees of generated modules x input spellings x prefix/separator/extension/header settings, line-view oracle",
    text="Trees of generated modules (with/without '@module [name]' doccomments with arbitrary Unicode bodies, indented or not, directly followed by commands) are documented as directory input (absolute, relative, './x/', '.') or lone file input under drawn prefix sources, separators, extension options and header lists; on every page the title frame, the single leading module directive, the derivation of title/module name from prefix + relative path (base name for a lone file, no absolute component, pairwise distinct) and the '@module' override/body attribution are checked.",
    note=SBX_NOTE + " Module contents come from the C01/C02 generator.")
CHECKS["C16"] = dict(level="exploration", design="4/C16", engine="sandbox-and-walk-model",
    technique="property-based testing over configurations: per-option source subsets with distinct values, recorder in place of cminx.document, defaults parsed from config_default.yaml",
    text="For every option of the input/output/rst sections an independent subset of {command line, -s file, user configuration} sets a distinct value (optionally a wrong-typed one at the highest-priority file source); cminx.main runs in a sandbox with CMINXDIR pinned and cminx.document replaced by a recorder; the recorded Settings must follow command line > -s file > user config > documented default, exclude filters must be the multiset union, output.directory must resolve against cwd or the setting file's directory, effective wrong-typed values must be rejected before document() runs.",
    note=SBX_NOTE + " Defaults are read from the config_default.yaml of the tree under test with PyYAML; confuse is trusted to honour CMINXDIR.")
CHECKS["C17"] = dict(level="exploration", design="4/C17", engine="sandbox-and-walk-model",
    technique="metamorphic property-based testing over run histories: same input under other cwd/spelling/location/listing order/hash seed/neighbouring inputs, byte comparison",
    text="A baseline run of a generated tree or lone file is compared byte for byte with 2-5 further runs drawn from: repeat, relative spellings from other working directories (incl. '.' and '..'), moved tree, permuted directory listings, another PYTHONHASHSEED in a real subprocess, other inputs documented before/after in the same main() call (sharing base names), successive cminx.document() calls with one Settings object.",
    note=SBX_NOTE + " Paths written by several inputs (shared top index.rst) are excluded and counted.")
CHECKS["C18"] = dict(level="exploration", design="4/C18", engine="sandbox-and-walk-model",
    technique="property-based testing: sandbox snapshots before/after runs with and without -o, stdout decomposition against the -o pages",
    text="Whole-sandbox snapshots (paths, sizes, hashes) around runs with output directories that are absolute, relative, nested in the input tree (fresh or pre-existing), the parent of the input, or pre-populated: everything created or modified lies inside the output directory, nothing is deleted, unrelated files are untouched; without -o nothing changes on disk and stdout decomposes exactly into the pages of the -o run, each once with one empty line, sorted within a directory (sample re-run as a subprocess).",
    note=SBX_NOTE)
CHECKS["C05"] = dict(level="exploration", design="4/C05", engine="cmake-differential-and-reference-lexer",
    technique="property-based + differential testing: grammar-derived files vs construction knowledge and `cmake --trace` (CMake 3.25.1), plus the 977-file CMake corpus vs a reference lexer",
    text="Grammar-derived files (every argument form, escapes, continuations, bracket levels with near-miss closers, nested parentheses, comments glued to arguments, non-ASCII, CRLF, command names from CMinx's own vocabulary) must be parsed by CMinx into exactly the generator's command/argument sequence, processed to completion, and shown in order for documented generic commands; a deterministic quarter of the files is also executed by CMake itself whose trace must give the same argument boundaries (otherwise the generator is unsound: exit 2). All 977 files shipped with CMake must be processed without error and agree per command with a reference lexer written from cmake-language(7).",
    note="Trusts CMake 3.25.1 as the lexical judge and vlib/ref_lexer.py (itself compared with CMake on every sampled file). Only flat sequences of calls to no-op functions can be executed by cmake -P. Legacy unquoted arguments are outside the guarantee.")
CHECKS["C19"] = dict(level="exploration", design="4/C19", engine="sandbox-and-walk-model",
    technique="differential testing over generated inputs and extra-argument lists: cmake -P driving cminx_gen_rst() with an argv-logging wrapper vs the direct CLI run",
    text="A generated driver script calls cminx_gen_rst() through `cmake -P` with CMINX_EXECUTABLE bound to a wrapper that logs argv and runs the working-tree CMinx; logged argv must be input, '-r' iff directory, the extras verbatim (spaces, unicode, quotes, dollars, backslashes) and '-o output'; the output tree must be byte-identical to the direct CLI run; cmake must fail (no marker file) iff the direct run fails (missing path, syntax error, faulty file in a directory); also project mode (configure from another working directory, call in an add_subdirectory level). Known finding P19 (an extra argument spelled like an execute_process() keyword) is reported as KNOWN-FINDING; its consequences are skipped only inside that region.",
    note=SBX_NOTE + " CMake 3.25.1 executes cmake/cminx.cmake from the tree under test; values contain no ';'.")
CHECKS["C06"] = dict(level="fault_enumeration", design="4/C06", engine="cmake-differential-and-reference-lexer",
    technique="fault injection over generated modules: fault kind x token-boundary position (drawn in quick, enumerated in thorough), classified by a reference lexer, judged on exit status / written pages / skipped-character monitor",
    text="Lexical and syntactic faults (stray or unterminated quote, backslash+alphanumeric, backslash at EOF, unterminated bracket comment, extra/missing parentheses, bare words) are injected at token-boundary positions outside comments of generated valid modules, singly and in pairs, in file and directory mode; whenever the reference lexer classifies the mutant as invalid, cminx.main must fail with a non-zero status and leave no page for that file; a successful run with ANTLR 'token recognition error' output is always a violation. The thorough tier enumerates every position x kind of each drawn module.",
    note="Trusts vlib/ref_lexer.py for the classification (validated against CMake in C05; a sample of mutants is cross-checked against `cmake -P` parse errors, disputed mutants are dropped, >0.5% disputed = exit 2). Faults inside comments and absorbed faults are not demanded.")
NOT_APPLICABLE = [
]

def main():
    props = [json.loads(l)["id"] for l in open(os.path.join(HERE, "properties.jsonl"))]
    checks = []
    for pid in props:
        c = CHECKS.get(pid)
        if not c:
            continue
        checks.append({
            "property_id": pid,
            "quick_cmd": f"{PY} run_check.py {pid} --tier quick",
            "thorough_cmd": f"{PY} run_check.py {pid} --tier thorough",
            "evidence_file": f"evidence/{pid}.json",
            "replay_cmd_template": f"{PY} run_check.py {pid} --replay {{path}}",
            "engine": c["engine"],
            "level_claimed": {"category": c["level"], "text": c["text"], "design_ref": "DESIGN.md section " + c["design"]},
            "level_note": c["note"],
            "technique": c["technique"],
        })
    claimed = set(CHECKS)
    na = [x for x in NOT_APPLICABLE]
    for pid in props:
        if pid not in claimed and pid not in [x["property_id"] for x in na]:
            na.append({"property_id": pid, "reason": "check not built yet in this revision (work in progress); no technique limitation claimed"})
    m = {
        "version": 1,
        "setup_cmd": f"{PY} setup_check.py",
        "hooks": {
            "guard": "CMINX_VERIF",
            "enable": "no hooks: checks import cminx from /repo/src (working tree) and patch os.scandir / cminx.document only inside the harness process",
            "baseline_off_cmd": "cd /repo && /venv/bin/python -m pytest -ra -q -p no:cacheprovider --timeout=900 --continue-on-collection-errors",
            "source_commits": [],
            "add_only": True,
        },
        "engines": [
            {"name": "cmake-differential-and-reference-lexer", "path": "vlib/ref_lexer.py", "serves_properties": ["C05", "C06"],
             "kind_free_text": "tokenizer written from cmake-language(7), `cmake --trace --trace-format=json-v1 -P` as independent lexical judge, corpus runner over /usr/share/cmake-3.25"},
            {"name": "sandbox-and-walk-model", "path": "vlib/sandbox.py", "serves_properties": ["C12", "C13", "C14", "C15", "C16", "C17", "C18", "C19"],
             "kind_free_text": "tree strategies and reference walk/pattern model (vlib/gen_tree.py), /dev/shm sandboxes, scandir-order shim, in-process and subprocess CLI runners, snapshots (vlib/sandbox.py)"},
            {"name": "module-generator-and-model", "path": "vlib/", "serves_properties": ["C01", "C02", "C03", "C04", "C07", "C08", "C09", "C10", "C11", "C12"],
             "kind_free_text": "Hypothesis strategies for CMake module ASTs (vlib/gen_cmake.py), layout-driven renderer (vlib/render.py), reference semantics (vlib/model.py), reST views (vlib/rstview.py), field-level comparison (vlib/compare.py)"},
            {"name": "stateful-writer-model", "path": "props/C20.py", "serves_properties": ["C20"],
             "kind_free_text": "Hypothesis-generated operation histories interpreted on the real RSTWriter and a reference document model"},
        ],
        "checks": checks,
        "not_applicable": na,
        "notes": "All checks: /venv/bin/python run_check.py <ID> --tier quick|thorough [--replay F]; deterministic in VERIF_SEED; exit 2 = harness error (never a violation).",
    }
    json.dump(m, open(os.path.join(HERE, "MANIFEST.json"), "w"), indent=1)

if __name__ == "__main__":
    main()
