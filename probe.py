#!/venv/bin/python
"""Developer tool: run a property in one process, print bucket counts and the smallest example per bucket."""
import sys, os, collections, time
os.environ.setdefault("PYTHONHASHSEED", "0")
sys.path.insert(0, os.path.dirname(os.path.abspath(__file__)))
import vlib; vlib.use_repo_source()
import importlib, json
from hypothesis import given, settings, seed, HealthCheck
mod = importlib.import_module("props." + sys.argv[1])
n = int(sys.argv[2]) if len(sys.argv) > 2 else 300
tier = sys.argv[3] if len(sys.argv) > 3 else "quick"
sd = int(sys.argv[4]) if len(sys.argv) > 4 else 1
cnt = collections.Counter(); ex = {}; lab = collections.Counter()
t0 = time.time()
@seed(sd)
@settings(max_examples=n, deadline=None, database=None, suppress_health_check=list(HealthCheck))
@given(mod.strategy(tier))
def t(case):
    r = mod.evaluate(case)
    cnt["NT" if r.nontrivial else "triv"] += 1
    for l in r.labels: lab[l] += 1
    for k, d in r.failures:
        cnt[k] += 1
        sz = len(json.dumps(case))
        if k not in ex or sz < ex[k][0]:
            ex[k] = (sz, case, d)
t()
print(f"{time.time()-t0:.1f}s")
for k, v in cnt.most_common(): print(v, k)
print(dict(lab))
for k in list(ex)[:int(os.environ.get("NBUCKETS", "10"))]:
    print("=====", k); print(ex[k][2])
    d = mod.describe(ex[k][1]) if hasattr(mod, "describe") else ex[k][1]
    for kk, vv in (d.items() if isinstance(d, dict) else [("case", d)]):
        print(f"--- {kk}:"); print(vv if isinstance(vv, str) else json.dumps(vv, ensure_ascii=False)[:1500])
